module verif

go 1.23

require github.com/Trisia/randomness v0.0.0

replace github.com/Trisia/randomness => /repo
