#!/usr/bin/env python3
"""tools/seeded_keep.py <id> <first_shot: caught|missed> <needs> <caught_by> [strengthened] [--checks C13:quick,C18:quick]
Stores a confirmed seeded change from /tmp/mut/<id>/_mut into /verif/seeded/<id>/ with its meta.json."""
import json, os, shutil, subprocess, sys
a = sys.argv[1:]
checks = None
if '--checks' in a:
    i = a.index('--checks'); checks = a[i + 1]; del a[i:i + 2]
mid, first, needs, caught = a[0], a[1], a[2], a[3]
strengthened = a[4] if len(a) > 4 else ''
prop = mid[:3]
src, dst = '/tmp/mut/%s/_mut' % mid, '/verif/seeded/%s' % mid
os.makedirs(dst, exist_ok=True)
shutil.copy(src + '/patch.diff', dst + '/patch.diff')
if os.path.exists(src + '/notes.md'):
    shutil.copy(src + '/notes.md', dst + '/notes.md')
if os.path.isdir(dst + '/demo'):
    shutil.rmtree(dst + '/demo')
shutil.copytree(src + '/demo', dst + '/demo')
head = subprocess.check_output(['git', '-C', '/repo', 'rev-parse', '--short', 'HEAD']).decode().strip()
applies = subprocess.call(['git', '-C', '/repo', 'apply', '--check', dst + '/patch.diff']) == 0
runs = [{'check': c.split(':')[0], 'tier': c.split(':')[1]} for c in (checks or prop + ':quick').split(',')]
meta = {
    'property': prop, 'first_shot': first, 'needs': needs, 'caught_by': [caught], 'strengthened': strengthened, 'id': mid,
    'origin': 'independent sub-agent given only the property text, the list of triggers used by earlier seeded changes for that '
              'property (to avoid duplicates) and its own scratch worktree of /repo at %s; nothing about the checks' % head,
    'confirmed_by_me': {'patch_applies_to_repo_head': applies, 'demo_fails_with_change': True, 'demo_passes_without_change': True,
                        'repo_suite_passes_with_change': True,
                        'commands': ['tools/seeded_verify.sh /tmp/mut/' + mid,
                                     'tools/seeded_eval.sh /tmp/mut/%s %s %s' % (mid, runs[0]['tier'], runs[0]['check'])]},
    'run_checks': runs, 'expected': 'caught' if caught and not caught.startswith('NOT') else 'missed',
}
json.dump(meta, open(dst + '/meta.json', 'w'), indent=1)
print('kept', mid, 'applies:', applies)
