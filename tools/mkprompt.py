#!/usr/bin/env python3
"""tools/mkprompt.py <Cxx> <id>  -> /tmp/mut/<id>.prompt : the task text handed to a fresh sub-agent that seeds a change.
Contains only the property text, the triggers of earlier seeded changes for that property (to avoid duplicates)
and the agent's own worktree path; nothing about the checks."""
import json, sys, glob, os
prop, mid = sys.argv[1], sys.argv[2]
P = [json.loads(l) for l in open('/verif/properties.jsonl')]
p = [x for x in P if x['id'] == prop][0]
prev = []
for d in sorted(glob.glob('/verif/seeded/%s?' % prop)):
    prev.append('- ' + json.load(open(d + '/meta.json'))['needs'])
wt = '/tmp/mut/' + mid
txt = f"""You are helping to evaluate a verification framework by producing ONE realistic defect ("seeded change") in a Go library. Work ONLY inside your own scratch git worktree: {wt} (a checkout of the repository github.com/Trisia/randomness: GM/T 0005-2021 randomness tests, detection workflows in detect/, CLI tools in tools/). Do NOT read or write anything under /verif or /repo, and do not look for other people's checks: your change must be independent of whatever detection machinery exists.

The property your change must BREAK:

{p['id']}: {p['title']}

STATEMENT: {p['statement']}

QUANTIFIED OVER: {p['quantifier']['text']}

CODE ANCHORS (files): {', '.join(p['anchors']['files'])}

Earlier seeded changes for this property already used the following triggers; produce a change of a DIFFERENT kind (different mechanism and different trigger):
{chr(10).join(prev)}

What to produce:
1. A small source change to the library (non-test .go files in the worktree) that breaks this property, while (a) everything still compiles (`go build ./...`, `go vet` not required) and (b) the repository's existing test suite still passes unchanged: run `go test -vet=off -count=1 -timeout 25m ./...` in the worktree (takes ~2-3 minutes; the detect package is slow) and confirm it passes WITH your change. Do not edit or add files matching *_test.go as part of the change.
2. The change must look like something a maintainer could plausibly commit (a refactor, an "optimisation", an off-by-one, a wrong constant, a dropped lock, a reordered statement, a mishandled error path...), and it must need something SPECIFIC to manifest: a particular interleaving, a fault at a particular point, a multi-step sequence, an unusual input / parameter / length, or two cooperating sites that each look fine alone. It must NOT be something ordinary use on typical random input would expose at once (e.g. do not just break a result for all inputs).
3. A demonstration: a Go test file or small main program (put it under {wt}/_mut/demo/ with its own instructions; it may use `replace github.com/Trisia/randomness => {wt}` in a go.mod, or be an extra _test.go file you copy into a package directory only while running it) that FAILS with your change applied and PASSES on the unchanged code (verify both: `git stash` / `git stash pop`, or `git diff > patch; git checkout .; ...; git apply patch`).
4. Save into {wt}/_mut/ : `patch.diff` (output of `git diff` for the library change only, applicable with `git apply` at the repository root), the `demo/` directory, and `notes.md` explaining: what the change is, why the existing tests do not see it, exactly what is needed for it to manifest (input, schedule, fault point, sequence), how you ran the demonstration (commands) and what you observed with and without the change.

Environment: no network. Every shell call needs: `export GOFLAGS=-mod=mod GOPROXY=off GOSUMDB=off GOTOOLCHAIN=local`. Go 1.23 is `go`. The race detector works (`go test -race`). The repository's tests rewrite data/data.bin; ignore that file (do not include it in patch.diff: `git checkout -- data/data.bin` before `git diff`).

When finished, leave the worktree WITH the change applied and the _mut/ directory filled, and reply with a 5-line summary (what you changed, what it needs to manifest, demo command, result with/without).
"""
os.makedirs('/tmp/mut', exist_ok=True)
open('/tmp/mut/%s.prompt' % mid, 'w').write(txt)
print(mid, len(prev), 'earlier triggers listed')
