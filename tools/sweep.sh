#!/bin/bash
# tools/sweep.sh <quick|thorough> [seed...]  — runs every registered check, prints one line each
cd "$(dirname "$0")/.."
TIER="${1:-quick}"; shift
SEEDS="${@:-1}"
for seed in $SEEDS; do
  for id in $(python3 -c "import json;print(' '.join(c['property_id'] for c in json.load(open('MANIFEST.json'))['checks']))"); do
    t0=$(date +%s)
    out=$(VERIF_SEED=$seed ./check $id $TIER 2>&1); rc=$?
    t1=$(date +%s)
    echo "seed=$seed $id rc=$rc $((t1-t0))s $(echo "$out" | grep -c '^VIOLATION') violations; $(echo "$out" | grep '^SUMMARY' | cut -d' ' -f5-)"
    if [ $rc -ne 0 ]; then echo "$out" | grep -v '^SUMMARY' | head -20 | cut -c1-300; fi
  done
done
