#!/bin/bash
# tools/seeded_eval.sh <worktree-with-change-applied> <tier> <Cxx> [Cxx...]
# Runs the given checks against a scratch worktree (never /repo) and prints CAUGHT/MISSED per check.
WT="$1"; TIER="$2"; shift 2
OUT=/tmp/mut/out/$(basename "$WT"); mkdir -p "$OUT"
for id in "$@"; do
  t0=$(date +%s)
  res=$(VERIF_REPO="$WT" VERIF_OUT="$OUT" /verif/check $id $TIER 2>&1); rc=$?
  t1=$(date +%s)
  nv=$(echo "$res" | grep -c '^VIOLATION')
  if [ $rc -eq 1 ] && [ $nv -gt 0 ]; then st=CAUGHT; else st=MISSED; fi
  echo "$st $(basename $WT) $id tier=$TIER rc=$rc violations=$nv $((t1-t0))s :: $(echo "$res" | grep -m1 '^  detail:' | cut -c1-260)"
  echo "$res" | grep '^INCONCLUSIVE\|^OBSERVED\|^UNDECIDED\|^BUILD\|^HARNESS' | head -3
done
