#!/usr/bin/env python3
"""Sensitivity self-test: applies small realistic mutants, one at a time, to a scratch copy of the
repository (never /repo) and runs the owning check against it through VERIF_REPO.

usage: tools/selfmut.py [--tier quick] [--jobs 3] [name-substring ...]
Prints one line per mutant: CAUGHT / MISSED / NOBUILD, and writes tools/selfmut.last.json.
Scratch copies live under /tmp/selfmut and are removed as soon as each mutant is done.
"""
import json, os, shutil, subprocess, sys, time, concurrent.futures as cf

ROOT = os.path.dirname(os.path.dirname(os.path.abspath(__file__)))
REPO = os.environ.get("SELFMUT_REPO", "/repo")
ENV = dict(os.environ, GOFLAGS="-mod=mod", GOPROXY="off", GOSUMDB="off", GOTOOLCHAIN="local")

# (name, checks, file, old, new)
M = [
 ("c01-auto-block-edge", ["C01"], "frequency_within_block.go", "case n >= 1000000:", "case n > 1000000:"),
 ("c01-poker-nibble-mask", ["C01"], "poker.go", "patterns[data[i]&0x0f]++", "patterns[data[i]&0x07]++"),
 ("c01-overlap-dof", ["C01"], "overlapping.go", "p2 = igamc(float64(len(patterns3))/2.0, D2Phi2/2.0)", "p2 = igamc(float64(len(patterns2))/2.0, D2Phi2/2.0)"),
 ("c01-apen-nowrap", ["C01", "C17"], "approximate_entropy.go", "if bits[(i+j)%n] {", "if i+j < n && bits[i+j] {"),
 ("c01-block-tail", ["C01"], "frequency_within_block.go", "\tN := n / m\n\tif N == 0 {", "\tN := (n + m - 1) / m\n\tif N == 0 {"),
 ("c01-mono-bytes-sign", ["C01", "C15"], "mono_bit_frequency.go", "S += bits.OnesCount8(b)<<1 - 8", "S += bits.OnesCount8(b)<<1 - 7"),
 ("c02-table-digit", ["C02"], "longest_run_of_ones_In_block.go", "0.2494", "0.2493"),
 ("c02-regime-edge", ["C02"], "longest_run_of_ones_In_block.go", "case n >= 6272:", "case n > 6272:"),
 ("c02-regime-edge2", ["C02"], "longest_run_of_ones_In_block.go", "case n >= 750000:", "case n > 750000:"),
 ("c02-runsdist-cutoff", ["C02"], "runs_distribution.go", "\t\t\tif cnt > k {\n\t\t\t\tcnt = k\n\t\t\t}\n\t\t\tif cur {", "\t\t\tif cnt >= k {\n\t\t\t\tcnt = k - 1\n\t\t\t}\n\t\t\tif cur {"),
 ("c02-runsdist-lastrun", ["C02"], "runs_distribution.go", "\t// 特殊处理结尾\n\tif cnt > k {\n\t\tcnt = k\n\t}\n\tif cur {\n\t\tb[cnt-1]++\n\t} else {\n\t\tg[cnt-1]++\n\t}\n", "\t// 特殊处理结尾\n"),
 ("c02-longest-class-edge", ["C02"], "longest_run_of_ones_In_block.go", "} else if mlr1 > param.startV+param.k {", "} else if mlr1 >= param.startV+param.k-1 {"),
 ("c02-runs-lastbit", ["C02"], "runs.go", "\tif bits[n-1] {\n\t\tPi++\n\t}\n", ""),
 ("c03-autocorr-n", ["C03"], "autocorrelation.go", "(float64(n-d) / 2.0)) / math.Sqrt(2*float64(n-d))", "(float64(n-d) / 2.0)) / math.Sqrt(2*float64(n))"),
 ("c03-binder-nk", ["C03"], "binary_derivative.go", "V = float64(S) / math.Sqrt(2*float64(n-k))", "V = float64(S) / math.Sqrt(2*float64(n))"),
 ("c03-cusum-limit", ["C03"], "cumulative.go", "for i := ((-n / Z) - 3) / 4; i <= ((n/Z)-1)/4; i++ {", "for i := ((-n / Z) - 3) / 4; i < ((n/Z)-1)/4; i++ {"),
 ("c03-cusum-backward", ["C03", "C17"], "cumulative.go", "if bits[n-1-i] {", "if bits[(n-i)%n] {"),
 ("c04-tclass-edge", ["C04"], "linear_complexity.go", "} else if T <= 0.5 {", "} else if T < 0.5 {"),
 ("c04-rank-m1", ["C04"], "matrix_rank.go", "} else if r == (min(M, Q) - 1) {", "} else if r >= (min(M, Q) - 2) {"),
 ("c04-maurer-init", ["C04"], "maurers_universal.go", "for i := 1; i <= Q; i++ {", "for i := 1; i < Q; i++ {"),
 ("c04-revert-f1", ["C04", "C14", "C16"], "utils.go", "B_ = make([]int, M+1)\n\tC = make([]int, M+1)\n\tP = make([]int, M+1)\n\tT = make([]int, M+1)", "B_ = make([]int, M)\n\tC = make([]int, M)\n\tP = make([]int, M)\n\tT = make([]int, M)"),
 ("c05-count-range", ["C05"], "discrete_fourier_transform.go", "for i := 0; i < n/2-1; i++ {", "for i := 0; i < n/2; i++ {"),
 ("c05-threshold-const", ["C05"], "discrete_fourier_transform.go", "2.995732274", "2.995732"),
 ("c06-loose-convergence", ["C06"], "utils.go", "MACHEP float64 = 1.11022302462515654042e-16", "MACHEP float64 = 1.11022302462515654042e-9"),
 ("c06-branch", ["C06"], "utils.go", "if (x < 1.0) || (x < a) {\n\t\treturn (1.e0 - igam(a, x))", "if (x < 1.0) || (x < a/2) {\n\t\treturn (1.e0 - igam(a, x))"),
 ("c07-count-lt-le", ["C07"], "detect/detect.go", "\ts := 20\n\tt := Threshold(s)\n\tbuf := make([]byte, 20000/8)", "\ts := 20\n\tt := Threshold(s) + 1\n\tbuf := make([]byte, 20000/8)"),
 ("c07-factory-uniformity-le", ["C07"], "detect/detect.go", "if Pt < randomness.AlphaT {", "if Pt < randomness.AlphaT*1.5 {"),
 ("c07-period-round15", ["C07"], "detect/detect.go", "resArr := Round12(buf)", "resArr := Round15(buf)[:12]"),
 ("c07-poweron-uses-p", ["C07"], "detect/detect.go", "distributions[idx][i] = result.Q", "distributions[idx][i] = result.P"),
 ("c08-nonatomic-counter", ["C08"], "detect/detect_fast.go", "atomic.AddInt32(&counter[idx], 1)", "counter[idx]++"),
 ("c08-revert-f5", ["C08"], "detect/detect_fast.go", "counters := make([]int32, 12)\n\tdistributions := createDistributions(s, 12)\n\tjobs, wg, reader := bootWorker(source, n, Round12, counters, distributions)", "counters := make([]int32, 15)\n\tdistributions := createDistributions(s, 15)\n\tjobs, wg, reader := bootWorker(source, n, Round15, counters, distributions)"),
 ("c08-shared-buffer", ["C08", "C10"], "detect/detect_fast.go", "func worker(jobs chan int, source *sampleReader, n int, round func([]byte) []*randomness.TestResult, counter []int32, distributions [][]float64, wait *sync.WaitGroup) {\n\tbuf := make([]byte, n, n*2)", "var sharedBuf []byte\n\nfunc worker(jobs chan int, source *sampleReader, n int, round func([]byte) []*randomness.TestResult, counter []int32, distributions [][]float64, wait *sync.WaitGroup) {\n\tif len(sharedBuf) != n {\n\t\tsharedBuf = make([]byte, n)\n\t}\n\tbuf := sharedBuf"),
 ("c09-revert-f3-done", ["C09"], "detect/detect_fast.go", "\t\t\t// 读取失败也必须通知完成，否则调用方将永久阻塞\n\t\t\twait.Done()\n", ""),
 ("c09-error-swallowed", ["C09"], "detect/detect_fast.go", "// PowerOnDetectFast 上电自检", "// PowerOnDetectFast 上电自检 "),
 ("c09-seq-eof-ok", ["C09"], "detect/detect.go", "\ts := 20\n\tt := Threshold(s)\n\tbuf := make([]byte, 20000/8)\n\tcounters := make([]int, 12)\n\tdistributions := createDistributions(s, 12)\n\tfor i := 0; i < s; i++ {\n\t\t_, err := io.ReadFull(source, buf)\n\t\tif err != nil {", "\ts := 20\n\tt := Threshold(s)\n\tbuf := make([]byte, 20000/8)\n\tcounters := make([]int, 12)\n\tdistributions := createDistributions(s, 12)\n\tfor i := 0; i < s; i++ {\n\t\t_, err := io.ReadFull(source, buf)\n\t\tif err != nil && err != io.ErrUnexpectedEOF {"),
 ("c10-revert-f4-readfull", ["C10"], "detect/detect_fast.go", "_, err := io.ReadFull(r.source, buf)", "_, err := r.source.Read(buf)"),
 ("c10-lock-dropped", ["C10", "C08"], "detect/detect_fast.go", "\tr.mu.Lock()\n\tdefer r.mu.Unlock()\n\tif r.err != nil {\n\t\treturn r.err\n\t}\n\t_, err := io.ReadFull(r.source, buf)\n\tif err != nil {\n\t\tr.err = err\n\t}\n\treturn err", "\tif err := r.firstErr(); err != nil {\n\t\treturn err\n\t}\n\t_, err := io.ReadFull(r.source, buf)\n\tif err != nil {\n\t\tr.mu.Lock()\n\t\tr.err = err\n\t\tr.mu.Unlock()\n\t}\n\treturn err"),
 ("c10-single-read", ["C10", "C11"], "detect/detect.go", "\tdata := make([]byte, numByte)\n\t_, err := io.ReadFull(source, data)", "\tdata := make([]byte, numByte)\n\t_, err := source.Read(data)"),
 ("c11-m-edge", ["C11"], "detect/detect.go", "if n < 320 {", "if n <= 320 {"),
 ("c11-m8-edge", ["C11"], "detect/detect.go", "} else if n/8 >= 1280 {", "} else if n/8 > 1280 {"),
 ("c12-threshold-floor", ["C12"], "detect/detect.go", "return int(math.Ceil(r))", "return int(math.Floor(r)) + 1"),
 ("c12-bin-edge", ["C12", "C07"], "detect/detect.go", "case q < 0.3:", "case q <= 0.3:"),
 ("c13-swap-columns", ["C13"], "tools/rddetector/work_1E6.go", "p, q = randomness.CumulativeTest(bits, true)", "p, q = randomness.CumulativeTest(bits, false)"),
 ("c13-done-before-write", ["C13"], "tools/rddetector/main.go", "\tfor r := range in {\n\t\t_, _ = w.Write([]byte(r.Name))", "\tfor r := range in {\n\t\twg.Done()\n\t\t_, _ = w.Write([]byte(r.Name))"),
 ("c13-revert-f6", ["C13"], "tools/rddetector/work_2E4.go", "p, q = randomness.BinaryDerivativeProto(bits, 7)", "p, _ = randomness.BinaryDerivativeProto(bits, 7)"),
 ("c13-dat-skipped", ["C13"], "tools/rddetector/main.go", "\t\tif strings.HasSuffix(p, \".bin\") || strings.HasSuffix(p, \".dat\") {\n\t\t\tjobs <- p", "\t\tif strings.HasSuffix(p, \".bin\") {\n\t\t\tjobs <- p"),
 ("c13-revert-f10", ["C13"], "tools/rddetector/main.go", "\t\tif fInfo == nil || fInfo.IsDir() {\n\t\t\t// 与 toBeTestFileNum 保持一致：目录不是样本（即使目录名以 .bin/.dat 结尾）\n\t\t\treturn nil\n\t\t}\n", ""),
 ("c15-registry-swap", ["C15"], "structs.go", "\t{\"二元推导检测\", BinaryDerivative},\n\t{\"自相关检测\", Autocorrelation},", "\t{\"自相关检测\", Autocorrelation},\n\t{\"二元推导检测\", BinaryDerivative},"),
 ("c15-poker-default", ["C15"], "poker.go", "p, q := PokerTestBytes(data, 8)", "p, q := PokerTestBytes(data, 4)"),
 ("c15-b2bit-order", ["C15"], "utils.go", "\tfor _, b := range buf {\n\t\tbits = append(bits, B2bit(b)...)\n\t}\n\treturn bits\n}\n\n// ReadGroupInASCIIFormat", "\tfor _, b := range buf[:len(buf)/2*2] {\n\t\tbits = append(bits, B2bit(b)...)\n\t}\n\treturn bits\n}\n\n// ReadGroupInASCIIFormat"),
 ("c16-pass-strict", ["C16", "C15"], "runs.go", "Pass: p >= Alpha}", "Pass: p > Alpha+1e-3}"),
 ("c16-overlap-pass-p1", ["C16", "C15"], "overlapping.go", "Pass: math.Min(p1, p2) >= Alpha,", "Pass: math.Max(p1, p2) >= Alpha,"),
 ("c17-overlap-nowrap", ["C17", "C01"], "overlapping.go", "if bits[i%n] {", "if i < n && bits[i] {"),
 ("c18-binder-inplace", ["C18"], "binary_derivative.go", "\t_bits := make([]bool, len(bits))\n\tcopy(_bits, bits)\n", "\t_bits := bits\n"),
 ("c18-shared-matrix", ["C18"], "matrix_rank.go", "\tvar matrix = make([][]int, 32)\n\tfor i := 0; i < 32; i++ {\n\t\tmatrix[i] = make([]int, 32)\n\t}\n", "\tmatrix := sharedMatrix\n"),
 ("c19-inverse-scale", ["C19"], "fft/fft.go", "invN := 1.0 / float64(f.N)", "invN := 1.0 / float64(f.N-1)"),
 ("c19-wronglen-accepted", ["C19"], "fft/fft.go", "\tif len(x) != f.N {\n\t\tpanic(\"Input dimension mismatches: FFT is not initialized, or called with wrong input.\")\n\t}", "\tif len(x) < f.N {\n\t\tpanic(\"Input dimension mismatches: FFT is not initialized, or called with wrong input.\")\n\t}"),
 ("c19-maxdim", ["C19"], "fft/fft.go", "} else if N > maxdim {", "} else if N > 2*maxdim {"),
 ("c19-roots-sign-large", ["C19", "C05"], "fft/fft.go", "\t\tphi := -2.0 * math.Pi * float64(n) / float64(N)", "\t\tphi := -2.0 * math.Pi * float64(n) / float64(N)\n\t\tif N >= 1<<14 && n == N-1 {\n\t\t\tphi = -phi\n\t\t}"),
 ("c20-revert-f9", ["C20"], "tools/rdgen/main.go", "name := filepath.Join(output, fmt.Sprintf(\"random%d.bin\", i))", "name := fmt.Sprintf(\"target/data/random%d.bin\", i)"),
 ("c20-done-before-write", ["C20"], "tools/rdgen/main.go", "\t\t_, err = w.Write(buf)\n\t\t_ = w.Close()\n\t\twg.Done()", "\t\twg.Done()\n\t\t_, err = w.Write(buf)\n\t\t_ = w.Close()"),
 ("c20-shared-buffer", ["C20"], "tools/rdgen/main.go", "func worker(jobs chan int, source io.Reader, wg *sync.WaitGroup) {", "var buf []byte\n\nfunc worker(jobs chan int, source io.Reader, wg *sync.WaitGroup) {\n\tif buf == nil {\n\t\tbuf = make([]byte, n/8)\n\t}"),
]

EXTRA = {
 "c08-nonatomic-counter": [("detect/detect_fast.go", "\t\"sync/atomic\"\n", "")],
 "c09-error-swallowed": [("detect/detect_fast.go", "\tjobs, wg, reader := bootWorker(source, n, Round15, counters, distributions)\n\twg.Add(s)\n\tdefer close(jobs)\n\tfor i := 0; i < s; i++ {\n\t\tjobs <- i\n\t}\n\twg.Wait()\n\tif err := reader.firstErr(); err != nil {\n\t\treturn false, err\n\t}\n\tfmt.Println(counters)\n\n", "\tjobs, wg, _ := bootWorker(source, n, Round15, counters, distributions)\n\twg.Add(s)\n\tdefer close(jobs)\n\tfor i := 0; i < s; i++ {\n\t\tjobs <- i\n\t}\n\twg.Wait()\n\tfmt.Println(counters)\n\n")],

 # extra edits needed by a mutant: (file, old, new)
 "c18-shared-matrix": [("matrix_rank.go", "import (\n\t\"math\"\n)", "import (\n\t\"math\"\n)\n\nvar sharedMatrix = func() [][]int {\n\tm := make([][]int, 32)\n\tfor i := range m {\n\t\tm[i] = make([]int, 32)\n\t}\n\treturn m\n}()")],
 "c20-shared-buffer": [("tools/rdgen/main.go", "\tbuf := make([]byte, n/8)\n\tfor i := range jobs {", "\tfor i := range jobs {")],
}


def run_one(m, tier):
    name, checks, fn, old, new = m
    d = f"/tmp/selfmut/{name}/randomness"
    shutil.rmtree(f"/tmp/selfmut/{name}", ignore_errors=True)
    os.makedirs(os.path.dirname(d), exist_ok=True)
    subprocess.run(["rsync", "-a", "--exclude", ".git", REPO + "/", d + "/"], check=True)
    res = {"name": name, "checks": {}, "status": ""}
    try:
        edits = [(fn, old, new)] + EXTRA.get(name, [])
        for f, o, n in edits:
            p = os.path.join(d, f)
            s = open(p).read()
            if s.count(o) < 1:
                res["status"] = "NOPATTERN"
                return res
            s = s.replace(o, n, 1) if name not in ("c07-factory-uniformity-le", "c07-poweron-uses-p", "c07-period-round15") else s.replace(o, n, 1)
            open(p, "w").write(s)
        b = subprocess.run(["go", "build", "./..."], cwd=d, env=ENV, capture_output=True, text=True, errors="replace")
        if b.returncode != 0:
            res["status"] = "NOBUILD"
            res["build"] = b.stderr[-400:]
            return res
        out = f"/tmp/selfmut/{name}/out"
        os.makedirs(out, exist_ok=True)
        caught = False
        for cid in checks:
            t0 = time.time()
            r = subprocess.run([os.path.join(ROOT, "check"), cid, tier], env=dict(ENV, VERIF_REPO=d, VERIF_OUT=out), capture_output=True, text=True, errors="replace")
            viol = [l for l in r.stdout.splitlines() if l.startswith("VIOLATION")]
            det = [l for l in r.stdout.splitlines() if l.startswith("  detail:")]
            res["checks"][cid] = {"rc": r.returncode, "violations": len(viol), "first": (det[0][:220] if det else ""), "s": round(time.time() - t0, 1)}
            if r.returncode == 1 and viol:
                caught = True
        res["status"] = "CAUGHT" if caught else "MISSED"
        return res
    finally:
        shutil.rmtree(f"/tmp/selfmut/{name}", ignore_errors=True)


def main():
    args = sys.argv[1:]
    tier, jobs = "quick", 3
    while args and args[0].startswith("--"):
        if args[0] == "--tier":
            tier = args[1]; args = args[2:]
        elif args[0] == "--jobs":
            jobs = int(args[1]); args = args[2:]
        else:
            args = args[1:]
    sel = [m for m in M if not args or any(a in m[0] for a in args)]
    results = []
    with cf.ThreadPoolExecutor(max_workers=jobs) as ex:
        for r in ex.map(lambda m: run_one(m, tier), sel):
            results.append(r)
            print(r["status"], r["name"], json.dumps(r["checks"], ensure_ascii=False)[:400], r.get("build", ""), flush=True)
    json.dump(results, open(os.path.join(ROOT, "tools", "selfmut.last.json"), "w"), indent=1, ensure_ascii=False)
    print("caught", sum(r["status"] == "CAUGHT" for r in results), "of", len(results))


if __name__ == "__main__":
    main()
