#!/usr/bin/env python3
"""Regenerates /verif/MANIFEST.json from the table below (kept in one place so that it is always valid)."""
import json, os, sys

ROOT = os.path.dirname(os.path.dirname(os.path.abspath(__file__)))

REF = "Trusted base: Go runtime, math.Erfc/Sincos/Lgamma, math/big; the reference model in internal/oracle (never imports the library) encodes GM/T 0005-2021 as quoted in the property. Coverage is what the seeded workloads reach; bounds are in the evidence file."

# id -> (category, technique, text, note, design_ref)
CHECKS = {
 "C01": ("exploration", "runtime monitor: reference-model oracle over recorded calls",
         "Every generated (sequence, test, parameter) call of the five frequency/pattern tests is compared with an independent exact reference (integer counts, exact Q(a,x)) at tolerance 1e-8; 14 input families x lengths 100..65537 (10^6 thorough), automatic block length at its switch points up to 10^8, very many blocks (n=2^25, m=2/4; 4*10^7 and 10^8 thorough); re-run thinned under a non-power-of-two CPU count and with a 32-bit build; panics are events. One known finding (KNOWN_FINDINGS.txt, key largeN-block). Held on the executions observed, not a proof.", REF, "4/C01"),
 "C02": ("exploration", "runtime monitor: reference-model oracle over recorded calls",
         "Runs, runs-distribution and longest-run (ones/zeros) results compared with a reference computed from the exact run structure; class probabilities recomputed exactly by big-integer DP every run; regime edges 6271/6272/6273 and 749999/750000/750001, every runs-distribution cut-off switch length n=5*2^(k+2)+k-3 +-1, cut-off-straddling run lengths, class-edge blocks and inserted long runs (2^k-1, 2^k, 2^k+small, up to 65540) are generated on purpose; bit-level and byte-level entry points.", REF, "4/C02"),
 "C03": ("exploration", "runtime monitor: reference-model oracle over recorded calls",
         "Binary derivative k in {3,7,15}, autocorrelation d in {1,2,8,16,32}, cumulative sums forward/backward compared with the reference; prescribed-excursion walks put the maximum partial sum on a log grid from 1 to n in both directions; lengths include the neighbourhoods (-1..+34) of 2^16, 2^20, 2^21 (to 2^22 thorough).", REF, "4/C03"),
 "C04": ("exploration", "runtime monitor: reference-model oracle + panic events, exhaustive small-block enumeration",
         "Rank, linear complexity and Maurer results compared with GF(2) elimination / Berlekamp-Massey / direct Maurer references; every rank 0..32, every m-bit block for m<=16 (18 thorough) as single-block calls (exhaustive at those m), special blocks at m=500/1000/5000, pattern-starved Maurer initialisation, prescribed Maurer recurrence gaps (powers of two +-1 up to 65537; around 2^23 on 62 Mbit in thorough); a panic on an admissible input is a violation.", REF, "4/C04"),
 "C05": ("exploration", "runtime monitor: reference-model oracle (independent FFT validated by direct summation)",
         "DFT test compared with the statistic computed from an independent FFT whose bins are validated against direct summation in the same run; N1 is an interval when a magnitude is within 1e-9*sqrt(n) of the threshold. n up to 131073 quick; 2^22, smooth bin counts (s*2^k) up to 4.8 Mbit and one 10^8-bit case (2^27 points) thorough; thorough also sends a 24-Mbit sequence through a 32-bit build of the library (child process; C01-C04 do the same with 24 and 45 Mbit); re-run under a non-power-of-two CPU count.", REF, "4/C05"),
 "C06": ("exploration", "runtime monitor: exact-arithmetic oracle",
         "Igamc compared with exact finite sums for Q(k/2,x) in 160-bit arithmetic at the property's own tolerance, plus exactly-1 for x<=0, range and monotonicity (a runtime stack overflow inside the library is reported as a violation by ./check) on (x, x(1+10^-u)) pairs; shapes k/2 for all k<=128 and seeded k<=10000, x dense around x=1, x=a and in both tails, for small shapes down to the smallest subnormal and around machine epsilon; plus a concurrent hammer (8 goroutines, two per shape, shapes in arithmetic families with strides 1..2048) whose results must be bit-identical to solo calls.", REF, "4/C06"),
 "C12": ("exploration", "runtime monitor: exhaustive comparison with exact integer rule; reference binning",
         "Threshold checked for every s in 1..10^6 (the whole quantified range) against the exact integer inequality, sequentially and again from 16 goroutines walking the range in different orders; ThresholdQ against reference binning + exact Q(9/2,V/2) on seeded and edge-valued lists, each under 5 permutations (bit-identical); a quarter of the evaluations follow a hostile out-of-domain call in the same process.", REF, "4/C12"),
 "C19": ("exploration", "runtime monitor: closed-form and direct-summation oracles",
         "fft.Transform against closed forms (every impulse position and tone frequency for N<=2^8 quick / 2^10 thorough, seeded above), an independent FFT on all bins and direct summation; Inverse round trip; constructor contract for all n<=4096, seeded n, limits; wrong-length slices must be refused and left untouched; one transformer shared by 8 goroutines (tones with closed-form spectra, round trip). N up to 2^16 quick, 2^20 thorough; re-run under a non-power-of-two CPU count (taskset) and, in thorough, with a 32-bit build.", REF, "4/C19"),
}

WF = "Trusted base: Go runtime (scheduler, race detector, deadlock detector), the harness's recording reader and registry wrappers (internal/mon), the reference decision rule (internal/oracle). randomness.TestMethodArr is the seam for runner stubs; no hook is compiled into /repo. Schedules covered are those produced by the stated GOMAXPROCS/taskset/delay plans; the evidence counts distinct ones."
CHECKS.update({
 "C07": ("exploration", "runtime monitor: recorded sample/runner history + independent decision-rule model",
         "The three sequential workflows run on streams that encode a chosen s x items result matrix (stub runners at the registry seam; their second statistics P2/Q2 are chosen independently and must not influence the verdict) covering every pass count for every item and the uniformity boundary on both sides, (including the float64 neighbours of the bin edges) plus real-runner runs, history chains (a failing/faulting/Fast run first, then an accepted stream in the same process, shuffled order), exact-length streams whose last bytes arrive with io.EOF, and device/pipe sources; verdict, error/verdict consistency, named item, sample splitting (history checker) and tail independence are decided per run.", WF, "4/C07"),
 "C08": ("exploration", "runtime monitor: differential history check under schedule perturbation + Go race detector",
         "Each Fast workflow is run repeatedly on verdict-sensitive streams under seeded delays in Read/runners, GOMAXPROCS 1..16 and 1/2/3/16 workers (taskset) and compared with the sequential run on the same bytes; every judged sample must be one stream chunk judged once by the expected items; also with stalling sources (1..150 empty reads; one 10 s stall), a slow source, a source that runs a Fast detection of its own inside Read, several Fast detections at the same time in one process (plain and -race builds), seekable reader types at non-zero positions, finite sources cut on a sample boundary (0, 1, S/2, S-1 whole samples) and history pre-steps; a share of the runs is executed in a -race build and DATA RACE reports are violations.", WF, "4/C08"),
 "C09": ("fault_enumeration", "runtime monitor: fault injection at the source + Go deadlock detector + goroutine census",
         "Source failures are enumerated over offsets (0,1,B+-1, sample boundaries +-1, last sample, round absolute offsets, seeded) x failure kinds (EOF, unexpected EOF, custom, temporary-class/EAGAIN, EINTR plain and wrapped, error together with a partial read) x sticky/transient x 7 workflow functions, under whole and short reads, including 8*10^6-byte single-shot requests; judged samples must still be stream chunks; each run must return (hang decided by the runtime's deadlock detector in a plain child), false, non-nil error, no blocked goroutine left, bounded events after the fault (at most 20000 reads after a permanent failure); a share re-runs under -race.", WF, "4/C09"),
 "C10": ("exploration", "runtime monitor: exactly-once / no-stale sample history checker over read-size plans",
         "Each workflow is run on the same bytes under whole, 1-byte, prime, random and boundary-straddling read plans; the history checker demands that every judged sample is exactly one chunk of consecutive fresh stream bytes, judged once; verdict and named item must agree across plans, also when the final Read returns data together with io.EOF, through bytes.Reader/os.File/bufio/LimitedReader at non-zero start positions, and for single-shot requests up to 2^25+ bytes (2^30+4096 thorough); Fast variants also under delay plans and -race.", WF, "4/C10"),
 "C14": ("exploration", "runtime monitor: end-to-end verdict observation on degenerate sources (child process per batch)",
         "All 256 stuck-at streams and 200+ short-cycle streams (seeded and adversarial period contents) through the real periodic workflows, a rotating subset (all in thorough) through the 10^6-bit workflows, SingleDetect on all-zero/all-one at every length 16..4096 and at 2*10^8 / 2^28 bytes (2^32 and 2^32+2^27 thorough), stuck-at data behind an accepted prefix of seekable readers and after a detection on a healthy source in the same process, 64 goroutines x 40000 concurrent single-shot checks on stuck-at sources, and a 32-bit build of the harness for the small scenarios: must return, reject, and carry an error; panics in worker goroutines are attributed by the child-process protocol.", WF, "4/C14"),
})

CHECKS.update({
 "C11": ("exploration", "runtime monitor: reference-model oracle + consumption monitor on the reader",
         "SingleDetect on every length 0..4096 x four content families, requests of 2^16..2^20 bytes dominated by one byte value, plus m-discriminating contents (found by bias scanning and by construction) around the 320-bit and 10240-bit switches; oracle = reference poker with the length-appropriate m; the recording reader checks that exactly numByte bytes are consumed, also under short reads; 70000 repeated calls in one process must keep deciding alike.", REF, "4/C11"),
 "C15": ("exploration", "runtime monitor: differential comparison of entry points (bit-identical)",
         "On each generated byte string every byte-level entry point is compared bit for bit with the bit-level one on the harness's own MSB-first expansion, every registry runner with the standard's default, Round15/Round12 with the runners, heavy-hitter inputs (one pattern 2^14..2^17 times next to all byte values) on the counting tests, the file loader with the expansion (also for contents that look like another format and through symbolic links); registry order is identified on inputs where all fifteen defaults differ; cases run concurrently with mixed lengths in one process.", "Trusted base: the harness's MSB-first expansion; Go float64 equality. No reference statistics involved.", "4/C15"),
 "C16": ("exploration", "runtime monitor: invariant predicates on every result",
         "Range/finite/P-Q-relation/Pass predicates evaluated on every result of every test and registry runner over 28 extreme families x lengths 100..10^6 bits (10^7 thorough), on inputs tuned so that each runner's P lands around 0.01, on 4400 generic inputs through all runners, and on the inputs found by a needle search for P closest to 0.01 in the (n, excursion) and (n, ones) planes; panics are violations.", "Predicates only; trusted base is the Go runtime.", "4/C16"),
 "C17": ("exploration", "runtime monitor: metamorphic relations",
         "Complement, reversal, rotation, block permutation and tail rewriting applied to generated sequences; the library's result on the transformed input must match its result on the original within 1e-8 (with the stated Q/variant swaps).", "Metamorphic: the library is compared with itself; trusted base is the transformation code in the harness.", "4/C17"),
 "C18": ("exploration", "runtime monitor: input snapshots, solo-vs-concurrent differential, Go race detector",
         "Input (and canary-filled spare capacity) snapshots around every call, repeat-call equality, a soak of 70000 repeated calls per cheap entry point, a parameter-history block (36 (test, parameter) variants alternated on different inputs; each must repeat its first result), weak-cache-key adversarial pairs (same prefix/suffix, same CRC-64/CRC-32/Adler-32, buffer re-use), one caller-owned bit buffer refilled in place between calls through every test, every cheap entry point hammered from 64 goroutines on private inputs, 2/8/64 goroutines on shared and private buffers and mixed input lengths at once (thorough: several DFT plan lengths >= 2^24 points) compared with solo results, and the same mixes in a -race build with DATA RACE reports counted.", "Trusted base: Go race detector (reports races of observed executions only).", "4/C18"),
})

TOOLS = "Trusted base: Go toolchain (build, race detector, deadlock detector), strace/taskset as perturbation, the library's own functions as the reference for report values (C01-C05 decide those), the header-label parser in the harness. The only in-package instrumentation is /verif/overlay/rddetector/zz_verif_test.go injected with go test -overlay (tag verif); /repo is never written."
CHECKS.update({
 "C13": ("exploration", "runtime monitor: exactly-once row checker + label-driven column oracle over real reports",
         "Reports produced by the built rddetector binary (s in {1,2,7,40}, nested and suffix-named dirs, .dat, decoys (including non-sample files larger than the samples), duplicate and hostile file names including names that are not valid UTF-8, -n 1..64, flag order/spelling, GOMAXPROCS 1/4/16, four process environments, strace-delayed report writes, a low open-file limit, -race build) and by the three worker functions driven in-package on real channels are checked: termination, header, one row per sample file, column count, every value against the library call named by that column's label.", TOOLS, "4/C13"),
 "C20": ("exploration", "runtime monitor: file-system post-state checker",
         "The built rdgen is run in fresh scratch directories over s, n, -o shapes (relative, nested, absolute, pre-populated, trailing slash, %, spaces, unicode, invalid UTF-8, dash, symlinked, re-used by an earlier run), CPU counts (taskset), GOMAXPROCS, four process environments, open-file limits below the sample count, strace delays and a -race build; the post-state must be exactly the requested files of the requested size with pairwise different contents inside the requested directory and nothing elsewhere; rddetector must accept the directory as s samples of n bits for the supported sizes.", TOOLS, "4/C20"),
})

PENDING = {
}

def main():
    props = [json.loads(l) for l in open(os.path.join(ROOT, "properties.jsonl"))]
    checks = []
    na = []
    for p in props:
        i = p["id"]
        if i in CHECKS:
            cat, tech, text, note, ref = CHECKS[i]
            checks.append({
                "property_id": i,
                "quick_cmd": f"./check {i} quick",
                "thorough_cmd": f"./check {i} thorough",
                "evidence_file": f"/verif/evidence/{i}.json",
                "replay_cmd_template": f"./check {i} --replay {{path}}",
                "engine": "vcheck",
                "level_claimed": {"category": cat, "text": text, "design_ref": "DESIGN.md section " + ref},
                "level_note": note,
                "technique": tech,
            })
        else:
            na.append({"property_id": i, "reason": PENDING.get(i, "check under construction in this round; not claimed until it is built and silent on the unchanged tree")})
    m = {
        "version": 1,
        "setup_cmd": "./setup.sh",
        "hooks": {
            "guard": "verif",
            "enable": "go build -tags verif (the harness is an external module with `replace github.com/Trisia/randomness => /repo`; the only in-package instrumentation is an overlay _test.go injected with `go test -tags verif -overlay`, nothing is committed to /repo)",
            "baseline_off_cmd": "cd /repo && GOFLAGS=-mod=mod GOPROXY=off GOSUMDB=off GOTOOLCHAIN=local go test -vet=off -count=1 -timeout 25m ./...",
            "source_commits": [],
            "add_only": True,
        },
        "engines": [{"name": "vcheck", "path": "/verif/cmd/vcheck", "serves_properties": sorted(CHECKS), "kind_free_text": "Go harness: runs the real library/workflows/tools under generated workloads with monitors (reference-model oracles, history checkers, race detector, deadlock detector)"}],
        "checks": checks,
        "not_applicable": na,
        "notes": "Runtime monitoring only. `./check <id> <quick|thorough>` rebuilds the harness against /repo's working tree on every call. Exit 0 held / 1 VIOLATION / 3 could not decide (no VIOLATION line). Known findings: /verif/KNOWN_FINDINGS.txt.",
    }
    json.dump(m, open(os.path.join(ROOT, "MANIFEST.json"), "w"), indent=1, ensure_ascii=False)
    print("checks:", len(checks), "not_applicable:", len(na))

if __name__ == "__main__":
    main()
