#!/bin/bash
# tools/seeded_run.sh [id...] — the official procedure for a seeded change: apply patch.diff to /repo, run the
# check(s) listed in its meta.json (run_checks), undo straight afterwards. Evidence/replays of these runs go to a
# scratch directory (VERIF_OUT), never to /verif/evidence. Prints one line per (change, check).
cd "$(dirname "$0")/.."
IDS="${@:-$(ls -d seeded/*/ | xargs -n1 basename)}"
OUT=$(mktemp -d /tmp/seeded_run.XXXX)
if [ -n "$(git -C /repo status --porcelain)" ]; then echo "/repo is not clean; refusing"; exit 2; fi
for id in $IDS; do
  [ -f seeded/$id/patch.diff ] || continue
  runs=$(python3 -c "import json;print(' '.join(r['check']+':'+r['tier'] for r in json.load(open('seeded/$id/meta.json'))['run_checks']))")
  if ! git -C /repo apply "$(pwd)/seeded/$id/patch.diff"; then echo "NOAPPLY $id"; continue; fi
  for r in $runs; do
    chk=${r%%:*}; tier=${r##*:}
    t0=$(date +%s)
    res=$(VERIF_OUT="$OUT" ./check $chk $tier 2>&1); rc=$?
    t1=$(date +%s)
    nv=$(echo "$res" | grep -c '^VIOLATION')
    if [ $rc -eq 1 ] && [ $nv -gt 0 ]; then st=CAUGHT; else st=MISSED; fi
    echo "$st $id by $chk $tier rc=$rc violations=$nv $((t1-t0))s :: $(echo "$res" | grep -m1 '^  detail:' | cut -c1-180)"
  done
  git -C /repo checkout -- . ; git -C /repo clean -fdq -e data 2>/dev/null
done
rm -rf "$OUT"
git -C /repo status --porcelain
