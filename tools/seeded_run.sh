#!/bin/bash
# tools/seeded_run.sh [tier] [id...] — the official procedure for a seeded change: apply patch.diff to /repo,
# run the owning check(s) (from meta.json "property", plus any extra listed in meta "also"), undo straight afterwards.
# Evidence/replays of these runs go to a scratch directory (VERIF_OUT), never to /verif/evidence.
cd "$(dirname "$0")/.."
TIER="${1:-quick}"; shift
IDS="${@:-$(ls -d seeded/*/ | xargs -n1 basename)}"
OUT=$(mktemp -d /tmp/seeded_run.XXXX)
if [ -n "$(git -C /repo status --porcelain)" ]; then echo "/repo is not clean; refusing"; exit 2; fi
for id in $IDS; do
  prop=$(python3 -c "import json;print(json.load(open('seeded/$id/meta.json'))['property'])")
  if ! git -C /repo apply "$(pwd)/seeded/$id/patch.diff"; then echo "NOAPPLY $id"; continue; fi
  t0=$(date +%s)
  res=$(VERIF_OUT="$OUT" ./check $prop $TIER 2>&1); rc=$?
  git -C /repo checkout -- . ; git -C /repo clean -fdq -e data 2>/dev/null
  t1=$(date +%s)
  nv=$(echo "$res" | grep -c '^VIOLATION')
  if [ $rc -eq 1 ] && [ $nv -gt 0 ]; then st=CAUGHT; else st=MISSED; fi
  echo "$st $id by $prop $TIER rc=$rc violations=$nv $((t1-t0))s :: $(echo "$res" | grep -m1 '^  detail:' | cut -c1-200)"
done
rm -rf "$OUT"
git -C /repo status --porcelain
