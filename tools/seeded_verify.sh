#!/bin/bash
# tools/seeded_verify.sh <worktree> : confirms an agent's seeded change independently
# (patch matches the tree, demo fails with / passes without, repo suite passes with the change)
export GOFLAGS=-mod=mod GOPROXY=off GOSUMDB=off GOTOOLCHAIN=local
WT="$1"; N=$(basename $WT)
cd "$WT" || exit 2
git checkout -q -- data/data.bin 2>/dev/null
git diff -- . ':!data/data.bin' > /tmp/mut/$N.cur.diff
if diff -q /tmp/mut/$N.cur.diff _mut/patch.diff >/dev/null; then echo "$N patch: matches working tree"; else echo "$N patch: DIFFERS from working tree"; fi
( cd _mut/demo && timeout 1200 go test -vet=off -count=1 ./... > /tmp/mut/$N.demo_with.log 2>&1 ); rcw=$?
git apply -R _mut/patch.diff || { echo "$N cannot revert"; exit 2; }
( cd _mut/demo && timeout 1200 go test -vet=off -count=1 ./... > /tmp/mut/$N.demo_without.log 2>&1 ); rco=$?
git apply _mut/patch.diff
echo "$N demo: with-change rc=$rcw (want !=0)  without rc=$rco (want 0)"
go build ./... && timeout 3000 go test -vet=off -count=1 -timeout 25m ./... > /tmp/mut/$N.suite.log 2>&1; echo "$N suite with change: rc=$? $(grep -c '^ok' /tmp/mut/$N.suite.log) ok-packages"
git checkout -q -- data/data.bin 2>/dev/null
