#!/bin/bash
# setup_cmd: builds the harness once (warms the Go build cache). Offline; uses only files on disk.
set -e
cd "$(dirname "$0")"
export GOFLAGS=-mod=mod GOPROXY=off GOSUMDB=off GOTOOLCHAIN=local
mkdir -p bin evidence replays .work
go build -tags verif -o bin/vcheck ./cmd/vcheck
go build -race -tags verif -o bin/vcheck-race ./cmd/vcheck
GOARCH=386 go build -tags verif -o bin/vcheck386 ./cmd/vcheck   # warms the 32-bit standard library in the build cache
( cd /repo && go build -race -o /verif/bin/rddetector-race ./tools/rddetector && go build -race -o /verif/bin/rdgen-race ./tools/rdgen )
( cd /repo && go build -o /verif/bin/rddetector ./tools/rddetector && go build -o /verif/bin/rdgen ./tools/rdgen )
echo "setup ok"
