//go:build verif

package main

// In-package driver for the three worker functions of rddetector, injected with
// `go test -tags verif -overlay` (nothing is written to the repository). It only
// DRIVES the real code (real workers, real channels, real resultWriter) and dumps what
// was written; all checking is done by /verif/cmd/vcheck.

import (
	"bytes"
	"encoding/hex"
	"encoding/json"
	"io/ioutil"
	"os"
	"sync"
	"testing"
)

type verifJob struct {
	Scale   string   `json:"scale"` // 2E4 | 1E6 | 1E8
	Files   []string `json:"files"`
	Workers int      `json:"workers"`
	Out     string   `json:"out"`
}

type lockedBuffer struct {
	mu sync.Mutex
	b  bytes.Buffer
}

func (l *lockedBuffer) Write(p []byte) (int, error) {
	l.mu.Lock()
	defer l.mu.Unlock()
	return l.b.Write(p)
}

func TestVerifDrive(t *testing.T) {
	spec := os.Getenv("VERIF_C13_SPEC")
	if spec == "" {
		t.Skip("no spec")
	}
	raw, err := ioutil.ReadFile(spec)
	if err != nil {
		t.Fatal(err)
	}
	var jobsSpec []verifJob
	if err := json.Unmarshal(raw, &jobsSpec); err != nil {
		t.Fatal(err)
	}
	for i := range jobsSpec {
		for k, h := range jobsSpec[i].Files {
			b, err := hex.DecodeString(h)
			if err != nil {
				t.Fatal(err)
			}
			jobsSpec[i].Files[k] = string(b)
		}
	}
	hdrs := map[string]string{"2E4": Header_2E4, "1E6": Header_1E6, "1E8": Header_1E8}
	if d := os.Getenv("VERIF_C13_HEADERS"); d != "" {
		b, _ := json.Marshal(hdrs)
		_ = ioutil.WriteFile(d, b, 0644)
	}
	for _, js := range jobsSpec {
		var worker func(<-chan string, chan<- *R)
		switch js.Scale {
		case "2E4":
			worker = worker_2E4
		case "1E6":
			worker = worker_1E6
		case "1E8":
			worker = worker_1E8
		default:
			t.Fatalf("scale %q", js.Scale)
		}
		jobs := make(chan string)
		out := make(chan *R)
		var wg sync.WaitGroup
		wg.Add(len(js.Files))
		w := &lockedBuffer{}
		_, _ = w.Write([]byte(hdrs[js.Scale]))
		go resultWriter(out, w, &wg)
		for i := 0; i < js.Workers; i++ {
			go worker(jobs, out)
		}
		go func(files []string) {
			for _, f := range files {
				jobs <- f
			}
		}(js.Files)
		wg.Wait()
		w.mu.Lock()
		data := append([]byte(nil), w.b.Bytes()...)
		w.mu.Unlock()
		if err := ioutil.WriteFile(js.Out, data, 0644); err != nil {
			t.Fatal(err)
		}
	}
}
