// vcheck: one binary, one sub-command per property.
//
//	vcheck <Cxx> <quick|thorough>      run the check, write evidence/<Cxx>.json
//	vcheck replay <file>               re-run the single case recorded in a replay file
//	vcheck child <kind> <args...>      isolated scenario runner (workflow properties)
package main

import (
	"encoding/json"
	"fmt"
	"os"
	"runtime"
	"runtime/debug"
	"sort"
	"sync"
	"sync/atomic"

	"verif/internal/ev"
)

type checkFn func(c *ev.Ctx)

var checks = map[string]struct {
	level string
	fn    checkFn
}{}

// replayers re-evaluate one recorded case: kind -> fn(raw case) (violated, message)
var replayers = map[string]func(raw json.RawMessage) (bool, string){}

func register(id, level string, fn checkFn) {
	checks[id] = struct {
		level string
		fn    checkFn
	}{level, fn}
}

func main() {
	if len(os.Args) < 2 {
		usage()
	}
	switch os.Args[1] {
	case "replay":
		if len(os.Args) < 3 {
			usage()
		}
		os.Exit(doReplay(os.Args[2]))
	case "child":
		os.Exit(childMain(os.Args[2:]))
	case "list":
		ids := make([]string, 0, len(checks))
		for id := range checks {
			ids = append(ids, id)
		}
		sort.Strings(ids)
		for _, id := range ids {
			fmt.Println(id, checks[id].level)
		}
		return
	}
	id := os.Args[1]
	ck, ok := checks[id]
	if !ok {
		fmt.Fprintf(os.Stderr, "unknown property %s\n", id)
		os.Exit(2)
	}
	tier := ""
	if len(os.Args) > 2 {
		tier = os.Args[2]
	}
	c := ev.New(id, ck.level, tier)
	ck.fn(c)
	os.Exit(c.Finish())
}

func usage() {
	fmt.Fprintln(os.Stderr, "usage: vcheck <Cxx> <quick|thorough> | replay <file> | child ...")
	os.Exit(2)
}

func doReplay(path string) int {
	r, err := ev.LoadReplay(path)
	if err != nil {
		fmt.Fprintln(os.Stderr, err)
		return 2
	}
	fn, ok := replayers[r.Kind]
	if !ok {
		fmt.Printf("replay: kind %q of property %s has no in-process replayer; the recorded case is:\n%s\n", r.Kind, r.Property, string(r.Case))
		return 2
	}
	bad, msg := fn(r.Case)
	if bad {
		fmt.Printf("VIOLATION property=%s replay=%s\n  detail: %s\n", r.Property, path, msg)
		return 1
	}
	fmt.Printf("replay: case holds on this tree (%s)\n", msg)
	return 0
}

// parallel runs fn(i) for i in [0,n) on all cores.
func parallel(n int, fn func(i int)) {
	parallelN(runtime.NumCPU(), n, fn)
}

func parallelN(workers, n int, fn func(i int)) {
	if workers > n {
		workers = n
	}
	if workers < 1 {
		workers = 1
	}
	var next int64 = -1
	var wg sync.WaitGroup
	for w := 0; w < workers; w++ {
		wg.Add(1)
		go func() {
			defer wg.Done()
			for {
				i := int(atomic.AddInt64(&next, 1))
				if i >= n {
					return
				}
				fn(i)
			}
		}()
	}
	wg.Wait()
}

// guard calls f and converts a panic of the code under test into an event.
func guard(f func()) (panicked bool, msg string) {
	defer func() {
		if r := recover(); r != nil {
			panicked = true
			st := debug.Stack()
			if len(st) > 1500 {
				st = st[:1500]
			}
			msg = fmt.Sprintf("panic: %v\n%s", r, st)
		}
	}()
	f()
	return
}

// guardMsg is guard with only the panic value (no stack) for compact keys.
func panicValue(f func()) (val interface{}) {
	defer func() { val = recover() }()
	f()
	return nil
}
