// vcheck: one binary, one sub-command per property.
//
//	vcheck <Cxx> <quick|thorough>      run the check, write evidence/<Cxx>.json
//	vcheck replay <file>               re-run the single case recorded in a replay file
//	vcheck child <kind> <args...>      isolated scenario runner (workflow properties)
package main

import (
	"encoding/json"
	"fmt"
	"os"
	"os/exec"
	"path/filepath"
	"runtime"
	"runtime/debug"
	"sort"
	"strings"
	"sync"
	"sync/atomic"

	"verif/internal/ev"
)

type checkFn func(c *ev.Ctx)

var checks = map[string]struct {
	level string
	fn    checkFn
}{}

// replayers re-evaluate one recorded case: kind -> fn(raw case) (violated, message)
var replayers = map[string]func(raw json.RawMessage) (bool, string){}

func register(id, level string, fn checkFn) {
	checks[id] = struct {
		level string
		fn    checkFn
	}{level, fn}
}

func main() {
	if len(os.Args) < 2 {
		usage()
	}
	switch os.Args[1] {
	case "replay":
		if len(os.Args) < 3 {
			usage()
		}
		os.Exit(doReplay(os.Args[2]))
	case "child":
		os.Exit(childMain(os.Args[2:]))
	case "list":
		ids := make([]string, 0, len(checks))
		for id := range checks {
			ids = append(ids, id)
		}
		sort.Strings(ids)
		for _, id := range ids {
			fmt.Println(id, checks[id].level)
		}
		return
	}
	id := os.Args[1]
	ck, ok := checks[id]
	if !ok {
		fmt.Fprintf(os.Stderr, "unknown property %s\n", id)
		os.Exit(2)
	}
	tier := ""
	if len(os.Args) > 2 {
		tier = os.Args[2]
	}
	c := ev.New(id, ck.level, tier)
	ck.fn(c)
	if cpuSubrunIDs[id] && os.Getenv("VERIF_SUBRUN") == "" {
		cpuSubrun(c, id)
		if b386 := os.Getenv("VERIF_BIN_386"); b386 != "" && (cheap386[id] || c.Thorough()) {
			// always the quick workload: a 32-bit process cannot hold the thorough tier's inputs
			subrun(c, id, "GOARCH=386", []string{b386, id, "quick"})
		}
	}
	os.Exit(c.Finish())
}

// pure-function checks are re-run, thinned, in a child restricted to a non-power-of-two number of
// CPUs (runtime.NumCPU() = 3, 5, 6 or 7 by seed): results must not depend on the machine's CPU count.
var cpuSubrunIDs = map[string]bool{"C01": true, "C02": true, "C03": true, "C04": true, "C05": true, "C06": true, "C11": true, "C12": true, "C15": true, "C16": true, "C17": true, "C19": true}

// the 32-bit subrun is part of the quick tier only for the checks where it costs a few seconds
var cheap386 = map[string]bool{"C01": true, "C02": true, "C03": true, "C04": true, "C11": true, "C12": true, "C17": true}

func cpuSubrun(c *ev.Ctx, id string) {
	cpus := []int{3, 6, 5, 7}[int(uint64(c.Seed)%4)]
	if runtime.NumCPU() <= cpus {
		c.Note("cpu_count_subrun", fmt.Sprintf("skipped: only %d CPUs available", runtime.NumCPU()))
		return
	}
	bin := os.Getenv("VERIF_BIN")
	if bin == "" {
		c.Note("cpu_count_subrun", "skipped: harness binary path not set")
		return
	}
	subrun(c, id, fmt.Sprintf("NumCPU=%d", cpus), []string{"taskset", "-c", fmt.Sprintf("0-%d", cpus-1), bin, id, c.Tier})
}

// subrun re-runs the check, thinned, in a child under another configuration and folds its verdicts in.
func subrun(c *ev.Ctx, id, what string, argv []string) {
	work := os.Getenv("VERIF_WORK")
	if work == "" {
		return
	}
	cpus := what
	out := filepath.Join(work, "sub-"+strings.Map(func(r rune) rune {
		if r == '=' || r == ' ' {
			return '_'
		}
		return r
	}, what))
	_ = os.MkdirAll(out, 0o755)
	cmd := exec.Command(argv[0], argv[1:]...)
	cmd.Env = append(os.Environ(), "VERIF_SUBRUN=1", "VERIF_LITE=1", "VERIF_OUT="+out)
	b, err := cmd.Output()
	lines := strings.Split(string(b), "\n")
	nv := 0
	for i, ln := range lines {
		if strings.HasPrefix(ln, "VIOLATION ") {
			detail := ""
			if i+1 < len(lines) {
				detail = strings.TrimSpace(lines[i+1])
			}
			nv++
			c.Violation(fmt.Sprintf("%s:%s", cpus, clipS(detail, 120)), fmt.Sprintf("under %s: %s", cpus, detail), "subrun", map[string]interface{}{"configuration": cpus, "detail": detail})
		}
		if strings.HasPrefix(ln, "SUMMARY ") {
			var ev2, dn int
			if k := strings.Index(ln, "evaluations="); k >= 0 {
				fmt.Sscanf(ln[k:], "evaluations=%d distinct_nontrivial=%d", &ev2, &dn)
			}
			c.Count("evaluations_repeated_under_"+cpus, int64(ev2))
		}
	}
	if err != nil && nv == 0 {
		if ee, ok := err.(*exec.ExitError); ok && ee.ExitCode() == 3 {
			c.Note("subrun_"+cpus, "child could not decide (exit 3)")
		} else if ee, ok := err.(*exec.ExitError); ok && ee.ExitCode() == 1 {
			c.Violation(cpus+":unparsed", "child reported a violation: "+clipS(string(b), 800), "subrun", cpus)
		} else {
			c.Inconclusive(fmt.Sprintf("subrun under %s failed to run: %v", cpus, err))
		}
	}
}

func clipS(s string, n int) string {
	if len(s) > n {
		return s[:n]
	}
	return s
}

func usage() {
	fmt.Fprintln(os.Stderr, "usage: vcheck <Cxx> <quick|thorough> | replay <file> | child ...")
	os.Exit(2)
}

func doReplay(path string) int {
	r, err := ev.LoadReplay(path)
	if err != nil {
		fmt.Fprintln(os.Stderr, err)
		return 2
	}
	fn, ok := replayers[r.Kind]
	if !ok {
		fmt.Printf("replay: kind %q of property %s has no in-process replayer; the recorded case is:\n%s\n", r.Kind, r.Property, string(r.Case))
		return 2
	}
	bad, msg := fn(r.Case)
	if bad {
		fmt.Printf("VIOLATION property=%s replay=%s\n  detail: %s\n", r.Property, path, msg)
		return 1
	}
	fmt.Printf("replay: case holds on this tree (%s)\n", msg)
	return 0
}

// parallel runs fn(i) for i in [0,n) on all cores.
func parallel(n int, fn func(i int)) {
	parallelN(runtime.NumCPU(), n, fn)
}

func parallelN(workers, n int, fn func(i int)) {
	if workers > n {
		workers = n
	}
	if workers < 1 {
		workers = 1
	}
	var next int64 = -1
	var wg sync.WaitGroup
	for w := 0; w < workers; w++ {
		wg.Add(1)
		go func() {
			defer wg.Done()
			for {
				i := int(atomic.AddInt64(&next, 1))
				if i >= n {
					return
				}
				fn(i)
			}
		}()
	}
	wg.Wait()
}

// guard calls f and converts a panic of the code under test into an event.
func guard(f func()) (panicked bool, msg string) {
	defer func() {
		if r := recover(); r != nil {
			panicked = true
			st := debug.Stack()
			if len(st) > 1500 {
				st = st[:1500]
			}
			msg = fmt.Sprintf("panic: %v\n%s", r, st)
		}
	}()
	f()
	return
}

// guardMsg is guard with only the panic value (no stack) for compact keys.
func panicValue(f func()) (val interface{}) {
	defer func() { val = recover() }()
	f()
	return nil
}
