package main

import "fmt"

// childMain dispatches isolated scenario runners (filled in by the workflow checks).
var childKinds = map[string]func(args []string) int{}

func childMain(args []string) int {
	if len(args) < 1 {
		fmt.Println("child: missing kind")
		return 2
	}
	fn, ok := childKinds[args[0]]
	if !ok {
		fmt.Println("child: unknown kind", args[0])
		return 2
	}
	return fn(args[1:])
}
