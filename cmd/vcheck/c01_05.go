package main

import (
	"fmt"
	"math"
	"os"

	"verif/internal/ev"
	"verif/internal/gen"
	"verif/internal/oracle"
)

func init() {
	register("C01", "exploration", runC01)
	register("C02", "exploration", runC02)
	register("C03", "exploration", runC03)
	register("C04", "exploration", runC04)
	register("C05", "exploration", runC05)
}

var quickLens = []int{100, 101, 127, 128, 129, 200, 255, 256, 333, 999, 1000, 1001, 1024, 2048, 4099, 6271, 6272, 6273, 9999, 10000, 10001, 20000, 33333, 65535, 65536, 65537}
var thoroughLens = []int{100000, 749999, 750000, 750001, 999999, 1000000, 1048575, 1048576, 1048577, 1048583}

func seededLens(r *gen.Rng, k, lo, hi int) []int {
	out := make([]int, k)
	for i := range out {
		// log-uniform
		out[i] = int(math.Exp(math.Log(float64(lo)) + r.Float()*(math.Log(float64(hi))-math.Log(float64(lo)))))
	}
	return out
}

const refRule = "each case = (generated bit sequence, test, parameter); library P/Q compared with an independent reference (exact integer statistics + exact Q(a,x) in 160-bit arithmetic), tolerance 1e-8; non-trivial = reference P in (1e-9,1-1e-9) or the sequence belongs to a designated degenerate family (constant, alternating, periodic, single run, sparse, LFSR, extreme walk); distinct = distinct (sequence descriptor, test, parameter)"

var refAssume = []string{"Go math.Erfc/Sincos/Lgamma and math/big are correct", "the reference model in internal/oracle encodes GM/T 0005-2021 as quoted in the property statements"}

// ---------------- C01 ----------------

func c01Specs(r *gen.Rng) func(n int) []Spec {
	return func(n int) []Spec {
		sp := []Spec{{T: "mono"}, {T: "monoBytes"}, {T: "blockAuto"}}
		for _, m := range []int{2, 3, 7, 10, 64, 100, 1000, n / 3, n, r.Range(2, n)} {
			if m >= 2 && m <= n {
				sp = append(sp, Spec{"block", m})
			}
		}
		for _, m := range []int{2, 4, 8} {
			sp = append(sp, Spec{"poker", m}, Spec{"pokerBytes", m})
		}
		for _, m := range []int{2, 3, 5, 7} {
			sp = append(sp, Spec{"overlap", m})
		}
		for _, m := range []int{2, 5, 7} {
			sp = append(sp, Spec{"apen", m})
		}
		return sp
	}
}

func runC01(c *ev.Ctx) {
	c.Rule = refRule
	c.Assumptions = refAssume
	seed := uint64(c.Seed)
	if c.Thorough() {
		// tens of megabits through a 32-bit build of the library (products like 95*n leave a 32-bit int there)
		done := make(chan struct{})
		go func() {
			defer close(done)
			runBig386(c, big386Works(gen.Mix(seed, 386), []Spec{{T: "mono"}, {T: "monoBytes"}, {T: "blockAuto"}, {"block", 10000}, {"poker", 4}, {"poker", 8}, {"pokerBytes", 8}, {"overlap", 3}, {"overlap", 5}, {"apen", 2}, {"apen", 5}}, true))
		}()
		defer func() { <-done }()
		if os.Getenv("VERIF_ONLY_BIG386") == "1" {
			return
		}
	}
	r := gen.NewRng(gen.Mix(seed, 101))
	lens := append([]int{}, quickLens...)
	lens = append(lens, seededLens(r, 20, 100, 33333)...)
	reps := 5
	works := famWorks(gen.Mix(seed, 1), gen.Families, lens, reps, c01Specs(r))
	// two lengths just above 2^22 (parallel or blocked paths often start there), odd and even
	for _, n := range []int{1<<22 + 9, 1<<22 + 40} {
		works = append(works, seqWork{Seq: gen.Seq{Fam: "uniform", N: n, Seed: gen.Mix(seed, 5, uint64(n))}, Specs: c01Specs(r)(n)})
	}
	if c.Thorough() {
		works = append(works, famWorks(gen.Mix(seed, 2), gen.Families, thoroughLens, 1, c01Specs(r))...)
		works = append(works, famWorks(gen.Mix(seed, 11), gen.Families, lens, 60, c01Specs(r))...)
		works = append(works, famWorks(gen.Mix(seed, 3), []string{"uniform", "slight", "biased", "markov"}, seededLens(r, 12, 33333, 1000000), 1, c01Specs(r))...)
	}
	// near-cancellation inputs for the overlapping test: exact second difference is 0 or k/n (tiny)
	for _, n := range []int{100, 128, 200, 256, 1000, 4096, 20000} {
		for k := 0; k < 12; k++ {
			works = append(works, seqWork{Seq: gen.Seq{Fam: "uniform", N: n, Seed: gen.Mix(seed, 7, uint64(n), uint64(k))},
				Specs: []Spec{{"overlap", 2}, {"overlap", 3}, {"overlap", 5}, {"overlap", 7}}})
			works = append(works, seqWork{Seq: gen.Seq{Fam: "balanced", N: n, Seed: gen.Mix(seed, 8, uint64(n), uint64(k))},
				Specs: []Spec{{"overlap", 2}, {"overlap", 3}, {"mono", 0}, {"apen", 2}}})
		}
	}
	// every block count N = 1..1200 (degrees of freedom of the chi-square: thresholds inside the
	// incomplete-gamma code are properties of single shapes) and every block length m = 2..400
	for N := 1; N <= 1200; N++ {
		m := []int{8, 10, 3}[N%3]
		n := m*N + N%m
		if n < 100 {
			n = 100 + N
			m = n / N
			if m < 2 {
				continue
			}
		}
		works = append(works, seqWork{Seq: gen.Seq{Fam: []string{"uniform", "slight"}[N%2], N: n, Seed: gen.Mix(seed, 11, uint64(N))}, Specs: []Spec{{"block", m}}})
	}
	for m := 2; m <= 400; m++ {
		works = append(works, seqWork{Seq: gen.Seq{Fam: "slight", N: 2000 + m, Seed: gen.Mix(seed, 12, uint64(m))}, Specs: []Spec{{"block", m}}})
	}
	c.Count("block_counts_and_block_lengths_enumerated", 1200+399)
	runSeqWorks(c, works)

	// very many blocks (explicit small block length on a long sequence): a = N/2 up to 10^7.
	// One at a time (tens of MB each, seconds of exact arithmetic in the reference).
	type lg struct{ n, m int }
	// unbiased content: the statistic falls on either side of its mean (below the mean the library's
	// series branch is taken, above it the continued fraction), so several seeds are run
	large := []lg{{1 << 25, 2}, {1 << 25, 2}, {1 << 25, 2}, {1 << 25, 4}}
	if c.Thorough() {
		large = append(large, lg{40000000, 2}, lg{40000000, 3}, lg{40000000, 7}, lg{100000000, 10}, lg{100000000, 12}, lg{100000000, 64})
	}
	if c.Lite() {
		large = nil
	}
	if !c.Lite() {
		// the witness of the listed known finding (KNOWN_FINDINGS.txt), so that every run observes it
		runSeqWorks(c, []seqWork{{Seq: gen.Seq{Fam: "slight", N: 40000000, Seed: 5}, Specs: []Spec{{"block", 3}}}})
		c.Count("very_many_blocks_cases", 1)
	}
	for i, l := range large {
		fam := "uniform"
		if i >= 4 && i%2 == 0 {
			fam = "slight"
		}
		runSeqWorks(c, []seqWork{{Seq: gen.Seq{Fam: fam, N: l.n, Seed: gen.Mix(seed, 10, uint64(l.n), uint64(l.m), uint64(i))}, Specs: []Spec{{"block", l.m}}}})
		c.Count("very_many_blocks_cases", 1)
	}

	// automatic block-length table at its switch points, including 10^8
	edges := []int{999, 1000, 9999, 10000, 999999, 1000000}
	big := []int{99999999, 100000000, 100000001}
	for _, n := range edges {
		runSeqWorks(c, []seqWork{{Seq: gen.Seq{Fam: "slight", N: n, Seed: gen.Mix(seed, 9, uint64(n))}, Specs: []Spec{{T: "blockAuto"}}},
			{Seq: gen.Seq{Fam: "uniform", N: n, Seed: gen.Mix(seed, 99, uint64(n))}, Specs: []Spec{{T: "blockAuto"}}}})
		c.Count("auto_block_edge_cases", 2)
	}
	if c.Lite() {
		big = nil
	}
	for _, n := range big {
		// one at a time: 100 MB of bools + 100 MB reference bits each
		// (unbiased content: with any bias P is 0 for either block length at this size and the table entry would not show)
		runSeqWorks(c, []seqWork{{Seq: gen.Seq{Fam: "uniform", N: n, Seed: gen.Mix(seed, 9, uint64(n))}, Specs: []Spec{{T: "blockAuto"}}}})
		c.Count("auto_block_edge_cases", 1)
	}
	c.Note("lengths", fmt.Sprintf("%v (+thorough %v) + auto-block edges %v %v", lens, thoroughLens, edges, big))
}

// ---------------- C02 ----------------

// runsK is the cut-off k of the runs-distribution test.
func runsK(n int) int {
	k := 0
	for i := 1; i < 62; i++ {
		if float64(n-i+3)/math.Pow(2, float64(i+2)) >= 5 {
			k = i
		}
	}
	return k
}

// runlenSeq builds a sequence from seeded run lengths concentrated around k, with a chosen final run.
func runlenSeq(r *gen.Rng, n, k, final int) []uint8 {
	out := make([]uint8, 0, n)
	cur := uint8(r.U64() & 1)
	lens := []int{1, 1, 2, 3, k - 1, k, k + 1, k + 5, 2 * k}
	tail := 0
	tv := uint8(0)
	switch final {
	case 1:
		tail, tv = 1, 1
	case 2:
		tail, tv = k+3, 1
	case 3:
		tail, tv = 1, 0
	case 4:
		tail, tv = k+3, 0
	}
	for len(out) < n-tail {
		l := lens[r.Intn(len(lens))]
		if l < 1 {
			l = 1
		}
		for j := 0; j < l && len(out) < n-tail; j++ {
			out = append(out, cur)
		}
		cur ^= 1
	}
	if tail > 0 {
		// make sure the final run is a run of its own
		if len(out) > 0 && out[len(out)-1] == tv {
			out[len(out)-1] ^= 1
		}
		for j := 0; j < tail; j++ {
			out = append(out, tv)
		}
	}
	return out[:n]
}

// lrBlocks builds N blocks of length m whose longest run of sym is drawn from [lo-1, lo+K+1].
func lrBlocks(r *gen.Rng, n, m, lo, K int, sym uint8) []uint8 {
	out := make([]uint8, n)
	for i := range out {
		out[i] = sym ^ 1
	}
	for b := 0; b+m <= n; b += m {
		want := r.Range(lo-1, lo+K+1)
		if want < 0 {
			want = 0
		}
		if want > m {
			want = m
		}
		// fill with short runs (length 1, or up to want) then place one run of exactly `want`
		pos := b
		for pos < b+m {
			l := 1
			if want > 1 {
				l = r.Range(1, want)
			}
			if want == 0 {
				break
			}
			for j := 0; j < l && pos < b+m; j++ {
				out[pos] = sym
				pos++
			}
			pos++ // separator keeps the other symbol
		}
		if want > 0 {
			st := b + r.Intn(m-want+1)
			if st > b {
				out[st-1] = sym ^ 1
			}
			for j := 0; j < want; j++ {
				out[st+j] = sym
			}
			if st+want < b+m {
				out[st+want] = sym ^ 1
			}
		}
	}
	return out
}

func runC02(c *ev.Ctx) {
	c.Rule = refRule + "; the longest-run class probabilities of the reference are recomputed exactly (big-integer DP) on every run"
	c.Assumptions = refAssume
	seed := uint64(c.Seed)
	if c.Thorough() {
		// tens of megabits through a 32-bit build of the library (products like 95*n leave a 32-bit int there)
		done := make(chan struct{})
		go func() {
			defer close(done)
			runBig386(c, big386Works(gen.Mix(seed, 386), []Spec{{T: "runs"}, {T: "runsDist"}, {"longest", 1}, {"longest", 0}, {"longestBytes", 1}}, true))
		}()
		defer func() { <-done }()
		if os.Getenv("VERIF_ONLY_BIG386") == "1" {
			return
		}
	}
	r := gen.NewRng(gen.Mix(seed, 202))
	all := func(n int) []Spec {
		return []Spec{{T: "runs"}, {T: "runsDist"}, {"longest", 1}, {"longest", 0}, {"longestBytes", 1}, {"longestBytes", 0}}
	}
	lens := append([]int{}, quickLens...)
	lens = append(lens, seededLens(r, 40, 100, 33333)...)
	works := famWorks(gen.Mix(seed, 1), gen.Families, lens, 8, all)
	for _, n := range []int{1<<22 + 9, 1<<22 + 40} {
		works = append(works, seqWork{Seq: gen.Seq{Fam: "uniform", N: n, Seed: gen.Mix(seed, 5, uint64(n))}, Specs: all(n)})
	}
	// runs-total at tiny n
	for n := 1; n <= 40; n++ {
		for k := 0; k < 4; k++ {
			works = append(works, seqWork{Seq: gen.Seq{Fam: "uniform", N: n, Seed: gen.Mix(seed, 5, uint64(n), uint64(k))}, Specs: []Spec{{T: "runs"}}})
		}
		works = append(works, seqWork{Seq: gen.Seq{Fam: "zeros", N: n}, Specs: []Spec{{T: "runs"}}, Degenerate: true})
		works = append(works, seqWork{Seq: gen.Seq{Fam: "ones", N: n}, Specs: []Spec{{T: "runs"}}, Degenerate: true})
	}
	// run lengths straddling the cut-off, every final-run variant
	for _, n := range []int{100, 128, 1000, 4099, 20000} {
		k := runsK(n)
		for final := 0; final <= 4; final++ {
			for rep := 0; rep < 4; rep++ {
				bits := runlenSeq(gen.NewRng(gen.Mix(seed, 6, uint64(n), uint64(final), uint64(rep))), n, k, final)
				works = append(works, seqWork{Seq: gen.Explicit(bits), Specs: all(n), Degenerate: true})
				c.Count("cutoff_straddling_sequences", 1)
			}
		}
	}
	// lengths at which the runs-distribution cut-off k switches: e_k = (n-k+3)/2^(k+2) is exactly 5
	// at n = 5*2^(k+2)+k-3; probe each of them and both neighbours
	for k := 1; k <= 15; k++ {
		n0 := 5*(1<<uint(k+2)) + k - 3
		for _, n := range []int{n0 - 1, n0, n0 + 1} {
			if n < 100 || (!c.Thorough() && n > 200000) {
				continue
			}
			for rep, f := range []string{"uniform", "slight", "markov", "biased"} {
				if n > 50000 && rep > 1 {
					continue
				}
				works = append(works, seqWork{Seq: gen.Seq{Fam: f, N: n, Seed: gen.Mix(seed, 9, uint64(n), uint64(rep))}, Specs: []Spec{{T: "runsDist"}}})
				c.Count("cutoff_switch_length_sequences", 1)
			}
		}
	}
	// longest-run regime edges: cheap even at 750000 bits, so both tiers
	lrOnly := func(n int) []Spec {
		return []Spec{{"longest", 1}, {"longest", 0}, {"longestBytes", 1}, {"longestBytes", 0}}
	}
	for _, n := range []int{128, 135, 6271, 6272, 6273, 6280, 749999, 750000, 750001, 750008, 1000000} {
		for _, f := range []string{"uniform", "slight", "markov", "biased", "zeros", "ones", "longruns", "longruns", "longruns"} {
			works = append(works, seqWork{Seq: gen.Seq{Fam: f, N: n, A: map[bool]int{true: 6, false: 0}[f == "longruns"], Seed: gen.Mix(seed, 7, uint64(n), uint64(len(works)))}, Specs: lrOnly(n), Degenerate: degenerateFam(f)})
			c.Count("regime_edge_sequences", 1)
		}
	}
	// blocks whose longest run sits on each class edge, three regimes, both symbols
	type reg struct{ n, m, lo, K int }
	regs := []reg{{800, 8, 1, 3}, {6271, 8, 1, 3}, {6272, 128, 4, 5}, {128 * 60, 128, 4, 5}, {750000, 10000, 10, 6}}
	for _, g := range regs {
		for rep := 0; rep < 3; rep++ {
			for sym := uint8(0); sym <= 1; sym++ {
				bits := lrBlocks(gen.NewRng(gen.Mix(seed, 8, uint64(g.n), uint64(rep), uint64(sym))), g.n, g.m, g.lo, g.K, sym)
				sq := gen.Explicit(bits)
				works = append(works, seqWork{Seq: sq, Specs: lrOnly(g.n), Degenerate: true})
				c.Count("class_edge_sequences", 1)
			}
		}
	}
	if c.Thorough() {
		works = append(works, famWorks(gen.Mix(seed, 2), gen.Families, thoroughLens, 3, all)...)
		works = append(works, famWorks(gen.Mix(seed, 11), gen.Families, lens, 400, all)...)
		works = append(works, famWorks(gen.Mix(seed, 3), []string{"uniform", "slight", "biased", "markov"}, seededLens(r, 12, 33333, 1000000), 1, all)...)
	}
	runSeqWorks(c, works)
	c.Note("reference_longest_run_tables", map[string]interface{}{"m=8": oracle.LongestRunTable(8), "m=128": oracle.LongestRunTable(128), "m=10000": oracle.LongestRunTable(10000)})
}

// ---------------- C03 ----------------

func runC03(c *ev.Ctx) {
	c.Rule = refRule
	c.Assumptions = refAssume
	seed := uint64(c.Seed)
	if c.Thorough() {
		// tens of megabits through a 32-bit build of the library (products like 95*n leave a 32-bit int there)
		done := make(chan struct{})
		go func() {
			defer close(done)
			runBig386(c, big386Works(gen.Mix(seed, 386), []Spec{{"cusum", 1}, {"cusum", 0}, {"binder", 3}, {"binder", 7}, {"autocorr", 1}, {"autocorr", 8}, {"autocorr", 16}}, true))
		}()
		defer func() { <-done }()
		if os.Getenv("VERIF_ONLY_BIG386") == "1" {
			return
		}
	}
	r := gen.NewRng(gen.Mix(seed, 303))
	all := func(n int) []Spec {
		sp := []Spec{{"cusum", 1}, {"cusum", 0}}
		for _, k := range []int{3, 7, 15} {
			sp = append(sp, Spec{"binder", k})
		}
		for _, d := range []int{1, 2, 8, 16, 32} {
			sp = append(sp, Spec{"autocorr", d})
		}
		return sp
	}
	lens := append([]int{}, quickLens...)
	lens = append(lens, seededLens(r, 40, 100, 33333)...)
	works := famWorks(gen.Mix(seed, 1), gen.Families, lens, 8, all)
	// prescribed-excursion walks: Z on a log grid from 1 to n, both orientations
	walkLens := []int{100, 101, 1000, 4099, 20000}
	if c.Thorough() {
		walkLens = append(walkLens, 100000, 1000000)
	}
	for _, n := range walkLens {
		zs := map[int]bool{1: true, 2: true, 3: true, n: true, n - 1: true, n / 2: true, n/2 + 1: true, n / 3: true, n / 4: true, n/4 + 1: true, n / 5: true}
		for z := 1.0; z < float64(n); z *= 1.7 {
			zs[int(z)] = true
		}
		s := int(math.Sqrt(float64(n)))
		for _, z := range []int{s - 1, s, s + 1, 2 * s, 3 * s} {
			zs[z] = true
		}
		for z := range zs {
			if z < 1 || z > n {
				continue
			}
			for b := 0; b <= 1; b++ {
				works = append(works, seqWork{Seq: gen.Seq{Fam: "walk", N: n, A: z, B: b, Seed: gen.Mix(seed, 4, uint64(n), uint64(z))},
					Specs: []Spec{{"cusum", 1}, {"cusum", 0}}, Degenerate: true})
				c.Count("prescribed_excursion_walks", 1)
			}
		}
	}
	// lengths just above powers of two (and their multiples): natural chunk boundaries of blocked
	// implementations; cheap for these three tests even at 2^21 bits
	tops := []int{1 << 16, 1 << 20, 2 << 20}
	if c.Thorough() {
		tops = append(tops, 1<<17, 1<<18, 1<<19, 3<<20, 1<<22)
	}
	// extremes reached within a bit or two of a 64-bit word boundary, both directions, both modes
	for _, n := range []int{1024, 8000, 20000} {
		for _, k := range []int{1, 2, 32, 62, 63} {
			for o := 0; o < 4; o++ {
				works = append(works, seqWork{Seq: gen.Seq{Fam: "cusumword", N: n, A: k, B: o, Seed: gen.Mix(seed, 33, uint64(n), uint64(k), uint64(o))}, Specs: all(n), Degenerate: true})
			}
		}
	}
	if !c.Thorough() {
		// a few lengths just above 2^22 in the quick tier as well (parallel paths often start at 2^22 positions)
		for _, j := range []int{1, 9, 33, 40} {
			n := 1<<22 + j
			works = append(works, seqWork{Seq: gen.Seq{Fam: "uniform", N: n, Seed: gen.Mix(seed, 5, uint64(n))}, Specs: all(n)})
			c.Count("power_of_two_neighbourhood_lengths", 1)
		}
	}
	for _, base := range tops {
		for j := -1; j <= 34; j++ {
			n := base + j
			fam := []string{"uniform", "slight", "markov"}[(j+1)%3]
			works = append(works, seqWork{Seq: gen.Seq{Fam: fam, N: n, Seed: gen.Mix(seed, 5, uint64(n))}, Specs: all(n)})
			c.Count("power_of_two_neighbourhood_lengths", 1)
		}
	}
	if c.Thorough() {
		works = append(works, famWorks(gen.Mix(seed, 2), gen.Families, thoroughLens, 3, all)...)
		works = append(works, famWorks(gen.Mix(seed, 11), gen.Families, lens, 100, all)...)
		works = append(works, famWorks(gen.Mix(seed, 3), []string{"uniform", "slight", "biased", "markov"}, seededLens(r, 12, 33333, 1000000), 1, all)...)
	}
	runSeqWorks(c, works)
}

// ---------------- C04 ----------------

// rankMatrixBits returns 1024 bits of a 32x32 GF(2) matrix of rank exactly r (product of random full-rank factors).
func rankMatrixBits(rg *gen.Rng, r int) []uint8 {
	out := make([]uint8, 1024)
	if r == 0 {
		return out
	}
	for {
		// A: 32 x r, B: r x 32 with independent rows/cols (retry until rank r)
		A := make([]uint32, 32) // each row has r bits
		B := make([]uint32, r)  // each row 32 bits
		for i := range A {
			A[i] = uint32(rg.U64()) & ((1 << uint(r)) - 1)
			if r == 32 {
				A[i] = uint32(rg.U64())
			}
		}
		for i := range B {
			B[i] = uint32(rg.U64())
		}
		rows := make([]uint32, 32)
		for i := 0; i < 32; i++ {
			var w uint32
			for k := 0; k < r; k++ {
				if A[i]>>uint(k)&1 == 1 {
					w ^= B[k]
				}
			}
			rows[i] = w
		}
		if oracle.GF2Rank(rows) != r {
			continue
		}
		for i := 0; i < 32; i++ {
			for j := 0; j < 32; j++ {
				out[i*32+j] = uint8(rows[i] >> uint(31-j) & 1)
			}
		}
		return out
	}
}

func runC04(c *ev.Ctx) {
	c.Rule = refRule + "; plus exhaustive single-block enumeration: every m-bit block for m = 2..M is one linear-complexity case (non-trivial by construction: each has its own L)"
	c.Assumptions = refAssume
	seed := uint64(c.Seed)
	if c.Thorough() {
		// tens of megabits through a 32-bit build of the library (products like 95*n leave a 32-bit int there)
		done := make(chan struct{})
		go func() {
			defer close(done)
			runBig386(c, big386Works(gen.Mix(seed, 386), []Spec{{T: "rank"}, {"lc", 500}, {T: "maurer"}}, true))
		}()
		defer func() { <-done }()
		if os.Getenv("VERIF_ONLY_BIG386") == "1" {
			return
		}
	}
	r := gen.NewRng(gen.Mix(seed, 404))
	var works []seqWork

	// (a) prescribed-rank matrices: every rank singly, and mixed with trailing bits
	for rk := 0; rk <= 32; rk++ {
		for rep := 0; rep < 2; rep++ {
			bits := rankMatrixBits(gen.NewRng(gen.Mix(seed, 1, uint64(rk), uint64(rep))), rk)
			works = append(works, seqWork{Seq: gen.Explicit(bits), Specs: []Spec{{T: "rank"}}, Degenerate: true})
			c.Count("prescribed_rank_single_matrices", 1)
		}
	}
	for rep := 0; rep < 24; rep++ {
		rg := gen.NewRng(gen.Mix(seed, 2, uint64(rep)))
		nm := rg.Range(2, 40)
		var bits []uint8
		for i := 0; i < nm; i++ {
			rk := 32 - rg.Intn(4)
			if rg.Intn(5) == 0 {
				rk = rg.Range(0, 32)
			}
			bits = append(bits, rankMatrixBits(rg, rk)...)
		}
		tail := rg.Intn(1024)
		for i := 0; i < tail; i++ {
			bits = append(bits, uint8(rg.U64()&1))
		}
		works = append(works, seqWork{Seq: gen.Explicit(bits), Specs: []Spec{{T: "rank"}}, Degenerate: true})
		c.Count("mixed_rank_sequences", 1)
	}
	// generic families for rank / Maurer / LC at the documented block lengths
	gl := []int{1024, 1025, 2047, 2048, 8967, 8968, 8974, 10000, 20000, 33333}
	spec := func(n int) []Spec {
		sp := []Spec{{T: "rank"}, {T: "maurer"}, {"lc", 500}, {"lc", 1000}}
		if n >= 5000 {
			sp = append(sp, Spec{"lc", 5000})
		}
		for _, m := range []int{r.Range(2, 64), r.Range(65, 400)} {
			sp = append(sp, Spec{"lc", m})
		}
		return sp
	}
	works = append(works, famWorks(gen.Mix(seed, 3), gen.Families, gl, 2, spec)...)
	// (c) special blocks at m = 500 / 1000 / 5000
	for _, m := range []int{500, 1000, 5000} {
		mk := func(name string, f func(i int) uint8, blocks int) {
			bits := make([]uint8, m*blocks+r.Intn(m))
			for i := 0; i < m*blocks; i++ {
				bits[i] = f(i % m)
			}
			works = append(works, seqWork{Seq: gen.Explicit(bits), Specs: []Spec{{"lc", m}}, Degenerate: true})
			c.Count("special_block_sequences", 1)
			_ = name
		}
		mk("zeros", func(i int) uint8 { return 0 }, 2)
		mk("ones", func(i int) uint8 { return 1 }, 2)
		mk("lone final one", func(i int) uint8 {
			if i == m-1 {
				return 1
			}
			return 0
		}, 1)
		mk("lone final one x3", func(i int) uint8 {
			if i == m-1 {
				return 1
			}
			return 0
		}, 3)
		mk("0^(m-2)10", func(i int) uint8 {
			if i == m-2 {
				return 1
			}
			return 0
		}, 1)
		mk("10^(m-1)", func(i int) uint8 {
			if i == 0 {
				return 1
			}
			return 0
		}, 1)
		mk("half", func(i int) uint8 {
			if i == m/2 {
				return 1
			}
			return 0
		}, 1)
		// LFSR outputs of many degree classes (single block each so that the class is decoded exactly)
		for _, d := range []int{1, 2, 3, 5, m/2 - 3, m/2 - 2, m/2 - 1, m / 2, m/2 + 1, m/2 + 2, m/2 + 3, m - 1} {
			if d < 1 || (m == 5000 && !c.Thorough() && d > 10 && d != m/2) {
				continue
			}
			works = append(works, seqWork{Seq: gen.Seq{Fam: "lfsr", N: m, A: d, Seed: gen.Mix(seed, 5, uint64(m), uint64(d))}, Specs: []Spec{{"lc", m}}, Degenerate: true})
			c.Count("lfsr_block_sequences", 1)
		}
	}
	// (d) Maurer: pattern-starved initialisation segments and trailing bits
	for rep := 0; rep < 12; rep++ {
		rg := gen.NewRng(gen.Mix(seed, 6, uint64(rep)))
		n := []int{8967, 8968, 8974, 20000, 20003, 33333}[rep%6]
		bits := make([]uint8, n)
		alpha := rg.Range(1, 8) // initialisation segment uses only `alpha` distinct 7-bit patterns
		pats := make([]int, alpha)
		for i := range pats {
			pats[i] = rg.Intn(128)
		}
		for blk := 0; blk*7+7 <= n; blk++ {
			v := rg.Intn(128)
			if blk < 1280 {
				v = pats[rg.Intn(alpha)]
			}
			for j := 0; j < 7; j++ {
				bits[blk*7+j] = uint8(v >> uint(6-j) & 1)
			}
		}
		works = append(works, seqWork{Seq: gen.Explicit(bits), Specs: []Spec{{T: "maurer"}}, Degenerate: true})
		c.Count("pattern_starved_maurer_sequences", 1)
	}
	// Maurer: prescribed recurrence distances (powers of two and neighbours, first occurrence at those
	// block numbers): one marked pattern is placed only where the gap / first-occurrence is wanted
	{
		gaps := []int{1, 2, 3, 127, 128, 129, 255, 256, 257, 1023, 1024, 1025, 4095, 4096, 4097, 16383, 16384, 16385, 32767, 32768, 32769, 65535, 65536, 65537, 70000}
		for gi, g := range gaps {
			for _, first := range []bool{false, true} {
				rg := gen.NewRng(gen.Mix(seed, 66, uint64(g)))
				nblk := 1280 + g + 2000 + rg.Intn(5)
				if first && g <= 1280 {
					continue
				}
				n := 7*nblk + rg.Intn(7)
				bits := make([]uint8, n)
				mark := rg.Intn(128)
				put := func(blk, v int) {
					for j := 0; j < 7; j++ {
						bits[blk*7+j] = uint8(v >> uint(6-j) & 1)
					}
				}
				for blk := 0; blk < nblk; blk++ {
					v := rg.Intn(127)
					if v >= mark {
						v++
					}
					put(blk, v) // never the marked pattern
				}
				if first {
					put(g-1, mark) // block number g (1-based) is its first occurrence
				} else {
					p0 := 1290 + rg.Intn(300)
					put(p0, mark)
					put(p0+g, mark)
				}
				works = append(works, seqWork{Seq: gen.Explicit(bits), Specs: []Spec{{T: "maurer"}}, Degenerate: true})
				c.Count("maurer_prescribed_gap_sequences", 1)
				_ = gi
			}
		}
	}
	if c.Thorough() {
		tl := []int{100000, 1000000}
		works = append(works, famWorks(gen.Mix(seed, 7), []string{"uniform", "slight", "biased", "markov", "lfsr", "byteperiodic", "sparse", "zeros"}, tl, 1,
			func(n int) []Spec {
				return []Spec{{T: "rank"}, {T: "maurer"}, {"lc", 500}, {"lc", 1000}, {"lc", 5000}}
			})...)
	}
	runSeqWorks(c, works)
	if c.Thorough() && !c.Lite() {
		// Maurer at the library's documented scale: recurrence distances around 2^23 blocks need more
		// than 58.7 Mbit; one sequence at a time (60+ MB each)
		big := []gen.Seq{}
		for _, g := range []int{1<<23 - 1, 1 << 23, 1<<23 + 1, 8700000} {
			big = append(big, gen.Seq{Fam: "maurergap", N: 7 * (1300 + g + 3000), A: g, Seed: gen.Mix(seed, 67, uint64(g))})
		}
		big = append(big, gen.Seq{Fam: "maurergap", N: 7 * (1<<23 + 3000), A: 1 << 23, B: 1, Seed: gen.Mix(seed, 68)},
			gen.Seq{Fam: "maurersparse", N: 7 * 8700000, A: 500000, B: 8700000},
			gen.Seq{Fam: "maurersparse", N: 7 * 14000000, A: 700001, B: 13999999},
			gen.Seq{Fam: "maurersparse", N: 7 * 12000000, A: 1 << 19, B: 1<<23 + 1<<21})
		for _, sq := range big {
			runSeqWorks(c, []seqWork{{Seq: sq, Specs: []Spec{{T: "maurer"}}, Degenerate: true}})
			c.Count("maurer_sequences_beyond_58_Mbit", 1)
		}
	}

	// (b) exhaustive: all 2^m blocks, m = 2..M, as single-block calls
	M := 16
	if c.Thorough() {
		M = 18
	}
	if c.Lite() {
		M = 12
	}
	for m := 2; m <= M; m++ {
		total := 1 << uint(m)
		chunk := 1024
		nch := (total + chunk - 1) / chunk
		mm := m
		parallel(nch, func(ci int) {
			for v := ci * chunk; v < (ci+1)*chunk && v < total; v++ {
				bits := make([]uint8, mm)
				for j := 0; j < mm; j++ {
					bits[j] = uint8(v >> uint(mm-1-j) & 1)
				}
				s := Spec{"lc", mm}
				o := evalSeqSpec(s, bits, gen.Bools(bits), nil)
				c.Eval(uint64(mm)<<32|uint64(v), true)
				c.Count("exhaustive_blocks", 1)
				if o.Panic != "" {
					c.Violation(fmt.Sprintf("lc(%d):block=%0*b:panic", mm, mm, v), o.Panic, "seqtest", SeqCase{gen.Explicit(bits), s})
				} else if o.Worst > tolPQ {
					c.Violation(fmt.Sprintf("lc(%d):block=%0*b", mm, mm, v), fmt.Sprintf("library %v reference %v", o.Got, o.Want), "seqtest", SeqCase{gen.Explicit(bits), s})
				}
			}
		})
	}
	c.Note("exhaustive_block_lengths", fmt.Sprintf("2..%d", M))
}

// ---------------- C05 ----------------

func runC05(c *ev.Ctx) {
	c.Rule = refRule + "; the reference spectrum comes from an independent FFT that is itself validated against direct summation on this run; a case in which a magnitude lies within 2e-12*sqrt(n) of the threshold is counted as ambiguous and accepted for either count"
	c.Assumptions = refAssume
	seed := uint64(c.Seed)
	if c.Thorough() {
		// tens of megabits through a 32-bit build of the library (products like 95*n leave a 32-bit int there)
		done := make(chan struct{})
		go func() {
			defer close(done)
			runBig386(c, big386Works(gen.Mix(seed, 386), []Spec{{T: "dft"}}, false))
		}()
		defer func() { <-done }()
		if os.Getenv("VERIF_ONLY_BIG386") == "1" {
			return
		}
	}
	r := gen.NewRng(gen.Mix(seed, 505))
	dft := func(n int) []Spec { return []Spec{{T: "dft"}} }
	lens := []int{2, 3, 4, 5, 6, 7, 8, 9, 15, 16, 17, 100, 127, 128, 129, 255, 256, 257, 1000, 1023, 1024, 1025, 4095, 4096, 4097, 10000, 16384, 16385, 20000, 32768, 33333, 65536, 65537}
	lens = append(lens, 131071, 131072, 131073)
	lens = append(lens, seededLens(r, 30, 100, 70000)...)
	fams := []string{"uniform", "slight", "biased", "zeros", "ones", "alt", "periodic", "byteperiodic", "markov", "lfsr", "sparse", "balanced"}
	works := famWorks(gen.Mix(seed, 1), fams, lens, 3, dft)
	// sharp-peak periodic inputs: every bit period 2..70 at a power of two and off it
	for p := 2; p <= 70; p++ {
		for _, n := range []int{1024, 1000, 4099} {
			works = append(works, seqWork{Seq: gen.Seq{Fam: "periodic", N: n, A: p, Seed: gen.Mix(seed, 2, uint64(p))}, Specs: dft(n), Degenerate: true})
		}
	}
	if c.Thorough() {
		tl := []int{1 << 17, 1<<17 + 1, 1000000, 1 << 20, 1<<20 + 1, 1 << 21, 1 << 22}
		works = append(works, famWorks(gen.Mix(seed, 3), []string{"uniform", "slight", "periodic", "zeros", "markov", "lfsr"}, tl, 1, dft)...)
		// the number of counted bins n/2-1 is a "smooth" size (s*2^k, s in {1,3,5}): natural segment sizes
		// of chunked / parallel counting loops; n = 2m+2 and 2m+3 give exactly m bins
		for _, sm := range []int{1, 3, 5} {
			for k := 17; k <= 20; k++ {
				m := sm << uint(k)
				if m > 2400000 || m < 300000 {
					continue
				}
				for _, n := range []int{2*m + 2, 2*m + 3, 2*m + 1} {
					works = append(works, seqWork{Seq: gen.Seq{Fam: "uniform", N: n, Seed: gen.Mix(seed, 31, uint64(n))}, Specs: dft(n)})
					c.Count("smooth_bin_count_lengths", 1)
				}
			}
		}
	}
	// validate the reference FFT itself by direct summation before trusting it
	validateOracleFFT(c, seed)
	runSeqWorks(c, works)
	if c.Thorough() && !c.Lite() {
		// the library's documented maximum: 10^8 bits -> 2^27 points (about 6 GB in the library, 5 GB in
		// the reference); one case, run alone
		runSeqWorks(c, []seqWork{{Seq: gen.Seq{Fam: "uniform", N: 100000000, Seed: gen.Mix(seed, 4)}, Specs: dft(100000000)}})
		c.Count("cases_at_10^8_bits", 1)
	}
}

// validateOracleFFT checks the oracle's FFT against O(N^2) summation (all bins, N <= 2^10) and seeded bins above.
func validateOracleFFT(c *ev.Ctx, seed uint64) {
	worst := 0.0
	top := 16
	if c.Thorough() {
		top = 20
	}
	for lg := 1; lg <= top; lg++ {
		N := 1 << uint(lg)
		rg := gen.NewRng(gen.Mix(seed, 77, uint64(lg)))
		x := make([]complex128, N)
		norm := 0.0
		for i := range x {
			x[i] = complex(float64(2*int(rg.U64()&1)-1), 0)
			if lg%2 == 0 {
				x[i] = complex(rg.Norm(), rg.Norm())
			}
			norm += real(x[i])*real(x[i]) + imag(x[i])*imag(x[i])
		}
		norm = math.Sqrt(norm)
		X := oracle.FFT(x)
		bins := []int{}
		if lg <= 10 {
			for k := 0; k < N; k++ {
				bins = append(bins, k)
			}
		} else {
			for k := 0; k < 16; k++ {
				bins = append(bins, rg.Intn(N))
			}
		}
		for _, k := range bins {
			d := X[k] - oracle.NaiveDFTBin(x, k)
			e := math.Hypot(real(d), imag(d)) / norm
			if e > worst {
				worst = e
			}
			c.Count("oracle_fft_bins_validated_by_direct_summation", 1)
		}
	}
	c.Max("oracle_fft_worst_rel_error_vs_direct_sum", worst)
	if worst > 1e-11 {
		c.Inconclusive(fmt.Sprintf("reference FFT disagrees with direct summation (rel %.3g): reference not trusted", worst))
	}
}

// big386Works: one 24-Mbit sequence (above 2^31/95 bits) and, for everything except the spectral test
// (whose tables would not fit a 32-bit address space), one 45-Mbit sequence (above 2^31/50).
func big386Works(seed uint64, specs []Spec, big bool) []seqWork {
	w := []seqWork{{Seq: gen.Seq{Fam: "uniform", N: 24000000, Seed: gen.Mix(seed, 1)}, Specs: specs}}
	if big {
		w = append(w, seqWork{Seq: gen.Seq{Fam: "slight", N: 45000000, Seed: gen.Mix(seed, 2)}, Specs: specs})
	}
	return w
}
