package main

import (
	"encoding/json"
	"fmt"
	"math"
	"math/bits"
	"math/cmplx"
	"runtime"
	"sync"
	"sync/atomic"

	R "github.com/Trisia/randomness"
	"github.com/Trisia/randomness/detect"
	"github.com/Trisia/randomness/fft"

	"verif/internal/ev"
	"verif/internal/gen"
	"verif/internal/oracle"
)

func init() {
	register("C06", "exploration", runC06)
	register("C12", "exploration", runC12)
	register("C19", "exploration", runC19)
}

// ---------------- C06 ----------------

type igCase struct {
	TwoA int     `json:"two_a"`
	X    float64 `json:"x"`
	X2   float64 `json:"x2,omitempty"` // monotonicity partner (> X), 0 if none
}

func igTol(twoA int) float64 { return 1e-12 + 1e-14*float64(twoA)/2 }

func evalIg(cs igCase) (bad bool, errOverTol float64, msg string) {
	bad, errOverTol, msg, _ = evalIgW(cs)
	return
}

func evalIgW(cs igCase) (bad bool, errOverTol float64, msg string, want float64) {
	a := float64(cs.TwoA) / 2
	var got float64
	if p, m := guard(func() { got = R.Igamc(a, cs.X) }); p {
		return true, math.Inf(1), m, math.NaN()
	}
	want = oracle.Q2(cs.TwoA, cs.X)
	tol := igTol(cs.TwoA)
	d := diff(got, want)
	errOverTol = d / tol
	if cs.X <= 0 {
		if got != 1 {
			return true, errOverTol, fmt.Sprintf("Igamc(%v,%v)=%v, must be exactly 1 for x<=0", a, cs.X, got), want
		}
		return false, 0, "ok", want
	}
	if math.IsNaN(got) || got < 0 || got > 1 {
		return true, errOverTol, fmt.Sprintf("Igamc(%v,%v)=%v outside [0,1]", a, cs.X, got), want
	}
	if d > tol {
		return true, errOverTol, fmt.Sprintf("Igamc(%v,%v)=%.17g exact %.17g |err| %.3g > tol %.3g", a, cs.X, got, want, d, tol), want
	}
	if cs.X2 > cs.X {
		g2 := R.Igamc(a, cs.X2)
		if g2 > got+tol {
			return true, errOverTol, fmt.Sprintf("not monotone: Igamc(%v,%v)=%.17g < Igamc(%v,%v)=%.17g", a, cs.X, got, a, cs.X2, g2), want
		}
	}
	return false, errOverTol, fmt.Sprintf("Igamc(%v,%v)=%.17g exact %.17g", a, cs.X, got, want), want
}

// nearShapePrelude: before anything else in the process, every shape is visited once through a value that
// is NOT the half-integer itself but within a few 1e-9 of it (a legal shape a > 0 whose own result is
// not judged): anything remembered per shape with a tolerance would be seeded with the wrong value.
func nearShapePrelude(c *ev.Ctx) {
	n := 0
	for k := 1; k <= 10000; k++ {
		h := float64(k) / 2
		for _, d := range []float64{3e-9, -2e-9} {
			a := h + d
			if k%2 == 0 {
				a = math.Nextafter(h, h+d)
			}
			guard(func() { _ = R.Igamc(a, h) })
			n++
		}
	}
	c.Count("near_half_integer_shape_calls_made_first", int64(n))
}

func runC06(c *ev.Ctx) {
	nearShapePrelude(c)
	c.Rule = "each case = (a = k/2, x [, x' > x]); Igamc compared with the exact finite sum for Q(k/2,x) evaluated in 160-bit arithmetic (erfc for the half-integer head), tolerance 1e-12+1e-14a; plus exact-1 for x<=0, range [0,1], monotone in x up to tolerance; plus a concurrent hammer (8 goroutines, two per shape, shapes in arithmetic families with strides 1..2048, every result bit-identical to the solo result); non-trivial = exact Q in (1e-300, 1-1e-15) or x<=0 probe; distinct = distinct (k, x bits)"
	c.Assumptions = []string{"math.Erfc correct to ~1 ulp", "math/big arithmetic", "the exact finite-sum identities for integer and half-integer shapes"}
	seed := uint64(c.Seed)
	var ks []int
	for k := 1; k <= 128; k++ {
		ks = append(ks, k)
	}
	ks = append(ks, 255, 256, 511, 1000, 2000, 4001, 6000, 8000, 9999, 10000)
	rg := gen.NewRng(gen.Mix(seed, 606))
	nSeeded := 60
	per := 160
	if c.Thorough() {
		nSeeded = 600
		per = 1200
	}
	if c.Lite() {
		per /= 5
	}
	for i := 0; i < nSeeded; i++ {
		ks = append(ks, rg.Range(1, 10000))
	}
	var cases []igCase
	for _, k := range ks {
		a := float64(k) / 2
		r := gen.NewRng(gen.Mix(seed, 607, uint64(k)))
		add := func(x float64) {
			if x < 0 {
				x = 0
			}
			if x > 20*a+200 {
				x = 20*a + 200
			}
			cs := igCase{TwoA: k, X: x}
			if x > 0 {
				u := 1 + 15*r.Float()
				cs.X2 = x * (1 + math.Pow(10, -u))
			}
			cases = append(cases, cs)
		}
		n5 := per / 5
		for i := 0; i < n5; i++ {
			add(r.Float() * (20*a + 200))
			add(a + 3*math.Sqrt(a)*r.Norm())
			add(a * (1 + (r.Float()*2-1)*1e-6))
			add(1 + (r.Float()*2-1)*1e-3)
			// far tails: geometric towards 0 and towards the underflow region
			if i%2 == 0 {
				add(math.Pow(10, -12*r.Float()) * a)
			} else {
				add(a + (20*a+200-a)*math.Pow(r.Float(), 0.5))
			}
		}
		// switch-over lines exactly and their neighbours
		for _, x := range []float64{1, math.Nextafter(1, 0), math.Nextafter(1, 2), a, math.Nextafter(a, 0), math.Nextafter(a, a+1), 0, 20*a + 200} {
			add(x)
		}
		// arguments far below 1 (down to the smallest subnormal) and around machine epsilon: for small
		// shapes Q is still measurably below 1 there (Q(1/2,x) = erfc(sqrt x))
		if k <= 16 || k%97 == 0 {
			for e := 13; e <= 323; e += 1 + (e-13)/6 {
				add(math.Pow(10, -float64(e)) * (1 + r.Float()))
			}
			for _, x := range []float64{math.SmallestNonzeroFloat64, 2.2250738585072014e-308, 0x1p-53, math.Nextafter(0x1p-53, 0), math.Nextafter(0x1p-53, 1), 0x1p-52, 0x1p-54, 1e-16, 1.2e-16, 1e-17, 1e-20, 1e-24, 1e-25} {
				add(x)
			}
		}
		// x <= 0 probes (kept outside the [0,..] clamp)
		for _, x := range []float64{0, math.Copysign(0, -1), -1e-300, -1, math.Inf(-1)} {
			cases = append(cases, igCase{TwoA: k, X: x})
		}
	}
	// every shape k/2, k = 1..10000, at a handful of arguments (thresholds such as "use Gamma(a) below
	// 172" are properties of single shapes; sampling shapes cannot find them)
	{
		fr := []float64{0.5, 0.85, 1.0, 1.1, 2.0}
		if c.Thorough() {
			fr = []float64{0.1, 0.5, 0.7, 0.85, 0.95, 1.0, 1.05, 1.1, 1.3, 2.0, 4.0}
		}
		for k := 1; k <= 10000; k++ {
			if c.Lite() && k%7 != 0 {
				continue
			}
			a := float64(k) / 2
			for _, f := range fr {
				cases = append(cases, igCase{TwoA: k, X: a * f})
			}
			cases = append(cases, igCase{TwoA: k, X: a - 2*math.Sqrt(a)}, igCase{TwoA: k, X: a + 3*math.Sqrt(a)})
		}
		c.Count("shapes_enumerated_completely", 10000)
	}
	parallel(len(cases), func(i int) {
		cs := cases[i]
		bad, eot, msg, want := evalIgW(cs)
		nt := cs.X <= 0 || (want > 1e-300 && want < 1-1e-15)
		c.Eval(uint64(cs.TwoA)<<52^math.Float64bits(cs.X), nt)
		if cs.X2 > cs.X {
			c.Count("monotonicity_pairs", 1)
		}
		if cs.X <= 0 {
			c.Count("nonpositive_x_probes", 1)
		}
		if !math.IsInf(eot, 0) {
			c.Max("worst_error_over_tolerance", eot)
		}
		if bad {
			c.Violation(fmt.Sprintf("igamc:twoA=%d:x=%v", cs.TwoA, cs.X), msg, "igamc", cs)
		} else if i%9973 == 0 {
			c.Sample(map[string]interface{}{"a": float64(cs.TwoA) / 2, "x": cs.X, "result": msg})
		}
	})
	igamcHammer(c, seed)
	c.Note("shapes", fmt.Sprintf("every k/2 for k<=10000 at 7 arguments; densely: k/2 for every k<=128, {255,256,511,1000,2000,4001,6000,8000,9999,10000} and %d seeded k<=10000", nSeeded))
}

// igamcHammer: the function is pure, so concurrent callers must get exactly what a lone caller gets.
// Few shapes, called very often, two goroutines per shape, shapes in arithmetic families with
// power-of-two strides (anything memoised per shape in a small table collides on such families).
func igamcHammer(c *ev.Ctx, seed uint64) {
	iters := 25000
	if c.Thorough() {
		iters = 400000
	}
	r := gen.NewRng(gen.Mix(seed, 6006))
	type pt struct {
		a, x float64
		want uint64
	}
	var calls, bad int64
	var mu sync.Mutex
	for _, stride := range []int{1, 2, 3, 4, 8, 16, 32, 64, 128, 256, 512, 1024, 2048} {
		for _, half := range []bool{false, true} {
			k0 := r.Range(1, 60)
			shapes := make([][]pt, 4)
			for j := range shapes {
				k := 2 * (k0 + j*stride)
				if half {
					k = k0 + j*stride // half-integer steps
				}
				if k > 10000 {
					k = 10000 - j
				}
				a := float64(k) / 2
				for _, f := range []float64{0.3, 0.9, 1.0, 1.2, 2.5} {
					x := a * f
					shapes[j] = append(shapes[j], pt{a, x, math.Float64bits(R.Igamc(a, x))})
				}
			}
			var wg sync.WaitGroup
			start := make(chan struct{})
			for g := 0; g < 8; g++ {
				wg.Add(1)
				go func(g int) {
					defer wg.Done()
					pts := shapes[g%4]
					<-start
					n := 0
					for i := 0; i < iters; i++ {
						p := pts[(i+g)%len(pts)]
						got := R.Igamc(p.a, p.x)
						n++
						if math.Float64bits(got) != p.want && !(math.IsNaN(got) && math.IsNaN(math.Float64frombits(p.want))) {
							mu.Lock()
							bad++
							if bad <= 3 {
								c.Violation(fmt.Sprintf("igamc:concurrent:stride=%d:a=%v:x=%v", stride, p.a, p.x),
									fmt.Sprintf("Igamc(%v,%v) returned %.17g while other goroutines evaluated shapes %v apart; alone it returns %.17g", p.a, p.x, got, stride, math.Float64frombits(p.want)), "igamc", igCase{TwoA: int(2 * p.a), X: p.x})
							}
							mu.Unlock()
						}
					}
					mu.Lock()
					calls += int64(n)
					mu.Unlock()
				}(g)
			}
			close(start)
			wg.Wait()
			c.Eval(ev.HashStr(fmt.Sprintf("hammer|%d|%v", stride, half)), true)
		}
	}
	c.Count("concurrent_hammer_calls_compared_with_solo", calls)
}

// ---------------- C12 ----------------

type tqCase struct {
	Qs []float64 `json:"qs"`
}

// hostileTQ calls ThresholdQ with values outside [0,1] / NaN / Inf / an empty list and swallows whatever
// happens: what such a call returns is outside the property, but it must not disturb later calls.
func hostileTQ(rg *gen.Rng) {
	bad := []float64{math.NaN(), -1, 2, math.Inf(1), math.Inf(-1), -1e-300, 1 + 1e-12}
	n := rg.Range(0, 60)
	qs := make([]float64, n)
	for i := range qs {
		qs[i] = float64(rg.Intn(10)) / 100
	}
	if n > 0 {
		qs[rg.Intn(n)] = bad[rg.Intn(len(bad))]
		if rg.Intn(2) == 0 {
			qs[n-1] = bad[rg.Intn(len(bad))]
		}
	}
	guard(func() { _ = detect.ThresholdQ(qs) })
}

func evalTQ(cs tqCase, rg *gen.Rng) (bool, string) {
	if rg.Intn(4) == 0 {
		hostileTQ(rg)
	}
	var got float64
	if p, m := guard(func() { got = detect.ThresholdQ(cs.Qs) }); p {
		return true, m
	}
	want := oracle.UniformityP(cs.Qs)
	if diff(got, want) > 1e-12 {
		return true, fmt.Sprintf("ThresholdQ=%.17g reference Q(9/2,V/2)=%.17g (list of %d)", got, want, len(cs.Qs))
	}
	for k := 0; k < 5; k++ {
		p := rg.Perm(len(cs.Qs))
		q2 := make([]float64, len(cs.Qs))
		for i, j := range p {
			q2[i] = cs.Qs[j]
		}
		g2 := detect.ThresholdQ(q2)
		if math.Float64bits(g2) != math.Float64bits(got) {
			return true, fmt.Sprintf("order dependence: %.17g vs %.17g after a permutation", got, g2)
		}
	}
	return false, fmt.Sprintf("ThresholdQ=%.17g reference=%.17g", got, want)
}

func runC12(c *ev.Ctx) {
	c.Rule = "Threshold: every s in 1..10^6 against the exact integer inequality (99s-100t)^2<=891s (exhaustive over the quantifier's range); ThresholdQ: seeded lists (random, one-bin, edge-valued k/10 and nextafter neighbours, 0, 1.0) against reference binning + exact Q(9/2,V/2), each also under 5 permutations (bit-identical); a quarter of the evaluations are preceded, in the same process, by a hostile call (NaN, +-Inf, values outside [0,1], empty list) whose own outcome is ignored; non-trivial = every s (each has its own threshold) / lists with at least two occupied bins or an edge value; distinct = distinct s / distinct list hash"
	c.Assumptions = []string{"integer arithmetic; math/big; math.Erfc"}
	c.Exhaustive = true
	bad := 0
	top := 1000000
	for s := 1; s <= top; s++ {
		var got int
		if p, m := guard(func() { got = detect.Threshold(s) }); p {
			c.Violation(fmt.Sprintf("threshold:s=%d:panic", s), m, "threshold", s)
			bad++
		} else if want := oracle.Threshold(s); got != want {
			c.Violation(fmt.Sprintf("threshold:s=%d", s), fmt.Sprintf("Threshold(%d)=%d, smallest integer >= s(1-a-3sqrt(a(1-a)/s)) is %d", s, got, want), "threshold", s)
			bad++
		}
		c.Eval(uint64(s), true)
		if bad > 30 {
			break
		}
	}
	c.Count("thresholds_checked", int64(top))
	// the same range once more from 16 goroutines at once, each walking it in its own order (neighbouring
	// goroutines ask for unrelated s at any moment), then the workflow sample counts again sequentially:
	// a pure function of s must not depend on who else is calling it or on what was asked before
	{
		var nbad int64
		parallelN(16, 16, func(w int) {
			step := []int{1, 7919, 104729, 3, 999983, 17, 65537, 31, 2, 611953, 5, 257, 13, 127, 8191, 11}[w]
			for i := 0; i < top; i++ {
				if atomic.LoadInt64(&nbad) > 30 {
					return
				}
				s := int((int64(i)*int64(step)+int64(w)*62501)%int64(top)) + 1
				if i%3 == 0 {
					s = []int{20, 50, 1000, 1, 100}[(i/3+w)%5] // the sample counts every workflow asks for
				}
				got := detect.Threshold(s)
				if want := oracle.Threshold(s); got != want {
					atomic.AddInt64(&nbad, 1)
					c.Violation(fmt.Sprintf("threshold:concurrent:s=%d", s), fmt.Sprintf("Threshold(%d)=%d while 15 other goroutines call Threshold with other s; correct value %d", s, got, want), "threshold", s)
				}
			}
		})
		c.Count("thresholds_checked_under_16_concurrent_callers", int64(16*top))
		for _, s := range []int{20, 50, 1000, 1, 100, 999999, 20, 50} {
			if got, want := detect.Threshold(s), oracle.Threshold(s); got != want {
				c.Violation(fmt.Sprintf("threshold:after-concurrent:s=%d", s), fmt.Sprintf("Threshold(%d)=%d after the concurrent phase; correct value %d", s, got, want), "threshold", s)
			}
		}
	}
	c.Sample(map[string]interface{}{"s": 50, "Threshold": detect.Threshold(50), "reference": oracle.Threshold(50)})
	c.Sample(map[string]interface{}{"s": 91091, "Threshold": detect.Threshold(91091), "reference": oracle.Threshold(91091), "note": "real value is exactly the integer 90090"})

	seed := uint64(c.Seed)
	nl := 20000
	if c.Thorough() {
		nl = 200000
	}
	if c.Lite() {
		nl /= 6
	}
	edges := []float64{0, 1}
	for k := 1; k <= 9; k++ {
		e := float64(k) / 10
		edges = append(edges, e, math.Nextafter(e, 0), math.Nextafter(e, 1))
	}
	cases := make([]tqCase, nl)
	for i := range cases {
		r := gen.NewRng(gen.Mix(seed, 1212, uint64(i)))
		n := r.Range(1, 1000)
		switch i % 7 {
		case 0:
			n = 20
		case 1:
			n = 50
		case 2:
			n = 1000
		}
		qs := make([]float64, n)
		mode := r.Intn(5)
		for j := range qs {
			switch mode {
			case 0:
				qs[j] = r.Float()
			case 1:
				qs[j] = (float64(i%10) + r.Float()) / 10 // one bin
			case 2:
				qs[j] = edges[r.Intn(len(edges))]
			case 3:
				if r.Intn(3) == 0 {
					qs[j] = edges[r.Intn(len(edges))]
				} else {
					qs[j] = r.Float()
				}
			case 4:
				qs[j] = math.Pow(r.Float(), 3) // skewed
			}
		}
		cases[i] = tqCase{qs}
	}
	// very long lists: 10^6, 10^8 (and, thorough, 1.1*10^9: the sums of squares exceed 2^63/10) values almost all in
	// one interval; freshly allocated zeros cost no memory until read
	{
		sizes := []int{1000000, 100000000}
		if c.Thorough() && bits.UintSize == 64 && !c.Lite() {
			sizes = append(sizes, 1100000000)
		}
		if c.Lite() {
			sizes = sizes[:1]
		}
		for _, n := range sizes {
			qs := make([]float64, n)
			extra := []float64{0.15, 0.25, 0.95, 1.0, 0.5}
			for j, v := range extra {
				qs[(j+1)*(n/7)] = v
			}
			F := make([]int64, 10)
			F[0] = int64(n - len(extra))
			for _, v := range extra {
				F[oracle.Bin(v)]++
			}
			want := oracle.UniformityFromCounts(F, n)
			var got float64
			if p, m := guard(func() { got = detect.ThresholdQ(qs) }); p {
				c.Violation(fmt.Sprintf("thresholdQ:len=%d:panic", n), m, "thresholdq", nil)
				continue
			}
			c.Eval(ev.HashStr(fmt.Sprintf("hugelist%d", n)), true)
			c.Count("very_long_lists", 1)
			if diff(got, want) > 1e-12 {
				c.Violation(fmt.Sprintf("thresholdQ:len=%d", n), fmt.Sprintf("ThresholdQ of %d values = %.17g, reference %.17g", n, got, want), "thresholdq", nil)
			}
			qs = nil
			runtime.GC()
		}
	}
	// long lists of ordinary (uniform) values whose lengths are not multiples of anything convenient: a list
	// split across workers or blocks must still count its last few values
	{
		long := []int{65535, 65536, 65537, 65551, 100003, 262147, 1000003}
		if c.Lite() {
			long = long[:4]
		}
		for k, n := range long {
			r := gen.NewRng(gen.Mix(seed, 1215, uint64(n)))
			qs := make([]float64, n)
			for j := range qs {
				qs[j] = r.Float()
			}
			// the tail carries weight: the last 40 values all fall into one interval
			for j := n - 40; j < n; j++ {
				qs[j] = (float64(k%10) + r.Float()) / 10
			}
			cases = append(cases, tqCase{qs})
			c.Count("long_awkward_length_lists", 1)
		}
	}
	// every list length 1..400 once (a length is a parameter too)
	for n := 1; n <= 400; n++ {
		r := gen.NewRng(gen.Mix(seed, 1214, uint64(n)))
		qs := make([]float64, n)
		for j := range qs {
			qs[j] = r.Float()
		}
		cases = append(cases, tqCase{qs})
	}
	parallel(len(cases), func(i int) {
		cs := cases[i]
		r := gen.NewRng(gen.Mix(seed, 1213, uint64(i)))
		b, msg := evalTQ(cs, r)
		occ := map[int]bool{}
		edge := false
		for _, q := range cs.Qs {
			occ[oracle.Bin(q)] = true
			if q*10 == math.Trunc(q*10) {
				edge = true
			}
		}
		h := uint64(len(cs.Qs))
		for _, q := range cs.Qs {
			h = h*1099511628211 ^ math.Float64bits(q)
		}
		c.Eval(h, len(occ) >= 2 || edge)
		c.Count("uniformity_lists", 1)
		c.Count("permutation_reevaluations", 5)
		if b {
			c.Violation(fmt.Sprintf("thresholdQ:list=%d:len=%d", i, len(cs.Qs)), msg, "thresholdq", cs)
		} else if i < 2 {
			qq := cs.Qs
			if len(qq) > 12 {
				qq = qq[:12]
			}
			c.Sample(map[string]interface{}{"list_prefix": qq, "len": len(cs.Qs), "result": msg})
		}
	})
}

// ---------------- C19 ----------------

type fftCase struct {
	LogN  int     `json:"log_n"`
	Kind  string  `json:"kind"` // impulse, tone, random, pm1, roundtrip
	Pos   int     `json:"pos"`
	Seed  uint64  `json:"seed"`
	Scale float64 `json:"scale,omitempty"` // every entry multiplied by this (tiny / huge magnitudes); 0 = 1
}

func fftInput(cs fftCase) []complex128 {
	x := fftInputUnscaled(cs)
	if cs.Scale != 0 && cs.Scale != 1 {
		for i := range x {
			x[i] = complex(real(x[i])*cs.Scale, imag(x[i])*cs.Scale)
		}
	}
	return x
}

func fftInputUnscaled(cs fftCase) []complex128 {
	N := 1 << uint(cs.LogN)
	x := make([]complex128, N)
	r := gen.NewRng(cs.Seed)
	switch cs.Kind {
	case "impulse":
		x[cs.Pos] = 1
	case "tone": // x[j] = exp(+2 pi i f j / N)  -> X = N delta_f
		for j := range x {
			s, c := math.Sincos(2 * math.Pi * float64((j*cs.Pos)%N) / float64(N))
			x[j] = complex(c, s)
		}
	case "pm1":
		for j := range x {
			x[j] = complex(float64(2*int(r.U64()&1)-1), 0)
		}
	default:
		for j := range x {
			x[j] = complex(r.Norm(), r.Norm())
		}
	}
	return x
}

// norm2 is the Euclidean norm, computed relative to the largest entry so that neither tiny nor huge
// magnitudes underflow / overflow in the squares.
func norm2(x []complex128) float64 {
	m := 0.0
	for _, v := range x {
		m = math.Max(m, math.Max(math.Abs(real(v)), math.Abs(imag(v))))
	}
	if m == 0 || math.IsInf(m, 0) || math.IsNaN(m) {
		return m
	}
	s := 0.0
	for _, v := range x {
		re, im := real(v)/m, imag(v)/m
		s += re*re + im*im
	}
	return m * math.Sqrt(s)
}

// cabs is |z| without intermediate overflow/underflow.
func cabs(z complex128) float64 { return math.Hypot(real(z), imag(z)) }

const fftTol = 1e-9

// evalFFT returns the worst per-bin error relative to the input norm.
func evalFFT(cs fftCase) (bad bool, worst float64, msg string) {
	N := 1 << uint(cs.LogN)
	x := fftInput(cs)
	nrm := norm2(x)
	sc := cs.Scale
	if sc == 0 {
		sc = 1
	}
	var f fft.FFT
	var err error
	if p, m := guard(func() { f, err = fft.New(N) }); p {
		return true, math.Inf(1), m
	}
	if err != nil || f.N != N {
		return true, math.Inf(1), fmt.Sprintf("New(%d) -> N=%d err=%v", N, f.N, err)
	}
	y := make([]complex128, N)
	copy(y, x)
	var out []complex128
	if p, m := guard(func() { out = f.Transform(y) }); p {
		return true, math.Inf(1), m
	}
	if len(out) != N {
		return true, math.Inf(1), fmt.Sprintf("Transform returned %d values", len(out))
	}
	errAt := func(k int, want complex128) {
		d := cabs(out[k]-want) / nrm
		if math.IsNaN(d) {
			d = math.Inf(1)
		}
		if d > worst {
			worst = d
			msg = fmt.Sprintf("N=%d %s pos=%d: X[%d]=%v want %v (err/|x| %.3g)", N, cs.Kind, cs.Pos, k, out[k], want, d)
		}
	}
	switch cs.Kind {
	case "impulse":
		for k := 0; k < N; k++ {
			s, c := math.Sincos(-2 * math.Pi * float64((cs.Pos*k)%N) / float64(N))
			errAt(k, complex(c*sc, s*sc))
		}
	case "tone":
		for k := 0; k < N; k++ {
			if k == cs.Pos {
				errAt(k, complex(float64(N)*sc, 0))
			} else {
				errAt(k, 0)
			}
		}
	default:
		// independent FFT for all bins, direct summation for all (small N) or seeded bins; the
		// references work on the unscaled vector (the transform is linear) and are scaled afterwards
		xu := fftInputUnscaled(cs)
		scl := func(z complex128) complex128 { return complex(real(z)*sc, imag(z)*sc) }
		ref := oracle.FFT(xu)
		for k := 0; k < N; k++ {
			errAt(k, scl(ref[k]))
		}
		r := gen.NewRng(cs.Seed ^ 0xABCDEF)
		if cs.LogN <= 10 {
			for k := 0; k < N; k++ {
				errAt(k, scl(oracle.NaiveDFTBin(xu, k)))
			}
		} else {
			for j := 0; j < 24; j++ {
				k := r.Intn(N)
				errAt(k, scl(oracle.NaiveDFTBin(xu, k)))
			}
		}
	}
	// inverse restores the input
	var back []complex128
	if p, m := guard(func() { back = f.Inverse(out) }); p {
		return true, math.Inf(1), m
	}
	for j := range x {
		d := cabs(back[j]-x[j]) / nrm
		if math.IsNaN(d) {
			d = math.Inf(1)
		}
		if d > worst {
			worst = d
			msg = fmt.Sprintf("N=%d %s pos=%d: Inverse(Transform(x))[%d]=%v want %v", N, cs.Kind, cs.Pos, j, back[j], x[j])
		}
	}
	return worst > fftTol, worst, msg
}

func runC19(c *ev.Ctx) {
	c.Rule = "forward transform vs closed forms (unit impulse at p: X[k]=exp(-2 pi i pk/N); tone at f: X=N delta_f), vs an independent FFT on all bins and vs direct summation (all bins N<=2^10, 24 seeded bins above); Inverse(Transform(x)) vs x; per-bin tolerance 1e-9*|x|_2; constructor and wrong-length behaviour; non-trivial = every (N, kind, position, seed) case (each has a distinct expected spectrum); distinct = distinct case descriptor"
	c.Assumptions = []string{"math.Sincos", "oracle FFT validated by direct summation in the same run"}
	seed := uint64(c.Seed)
	top := 16
	if c.Thorough() {
		top = 20
	}
	var cases []fftCase
	for lg := 1; lg <= top; lg++ {
		N := 1 << uint(lg)
		r := gen.NewRng(gen.Mix(seed, 1919, uint64(lg)))
		if lg <= 10 && (lg <= 8 || c.Thorough()) {
			for p := 0; p < N; p++ {
				cases = append(cases, fftCase{LogN: lg, Kind: "impulse", Pos: p}, fftCase{LogN: lg, Kind: "tone", Pos: p})
			}
		} else {
			k := 24
			if lg > 16 {
				k = 6
			}
			for j := 0; j < k; j++ {
				cases = append(cases, fftCase{LogN: lg, Kind: "impulse", Pos: r.Intn(N)}, fftCase{LogN: lg, Kind: "tone", Pos: r.Intn(N)})
			}
			cases = append(cases, fftCase{LogN: lg, Kind: "impulse", Pos: N - 1}, fftCase{LogN: lg, Kind: "impulse", Pos: N / 2}, fftCase{LogN: lg, Kind: "tone", Pos: N - 1}, fftCase{LogN: lg, Kind: "tone", Pos: N / 2}, fftCase{LogN: lg, Kind: "tone", Pos: 1})
		}
		reps := 6
		if lg > 16 {
			reps = 2
		}
		for j := 0; j < reps; j++ {
			cases = append(cases, fftCase{LogN: lg, Kind: "random", Seed: gen.Mix(seed, uint64(lg), uint64(j), 1)}, fftCase{LogN: lg, Kind: "pm1", Seed: gen.Mix(seed, uint64(lg), uint64(j), 2)})
		}
		// the transform is linear: tiny and huge magnitudes (far from 1, but normal numbers throughout)
		if lg <= 14 {
			for j, scale := range []float64{1e-170, 1e-250, 1e-290, 1e150, 1e250, 3e-155} {
				kind := []string{"random", "pm1", "impulse", "tone"}[(j+lg)%4]
				cases = append(cases, fftCase{LogN: lg, Kind: kind, Pos: r.Intn(N), Seed: gen.Mix(seed, uint64(lg), uint64(j), 3), Scale: scale})
			}
		}
	}
	if c.Lite() {
		var keep []fftCase
		for i, cs := range cases {
			if cs.LogN >= 16 || i%6 == 0 {
				keep = append(keep, cs)
			}
		}
		cases = keep
	}
	workers := 16
	if c.Thorough() {
		workers = 8
	}
	parallelN(workers, len(cases), func(i int) {
		cs := cases[i]
		bad, worst, msg := evalFFT(cs)
		c.Eval(ev.HashStr(fmt.Sprintf("%v", cs)), true)
		c.Count("transform_cases_"+cs.Kind, 1)
		if !math.IsInf(worst, 0) {
			c.Max("worst_bin_error_over_input_norm", worst)
		}
		if bad {
			c.Violation(fmt.Sprintf("fft:logN=%d:%s:pos=%d", cs.LogN, cs.Kind, cs.Pos), msg, "fft", cs)
		} else if i%997 == 0 {
			c.Sample(map[string]interface{}{"case": cs, "worst_err_over_norm": worst})
		}
	})
	// one transformer (and value copies of it) used by eight goroutines at once, each on its own slices:
	// every caller must still get the transform of its own input
	for _, lg := range []int{5, 8, 11, 14, 16} {
		N := 1 << uint(lg)
		f, err := fft.New(N)
		if err != nil {
			c.Violation(fmt.Sprintf("fft.New:%d", N), err.Error(), "fftnew", N)
			continue
		}
		rounds := 40
		if lg >= 14 {
			rounds = 12
		}
		var nbad int64
		parallelN(8, 8, func(g int) {
			ff := f // value copy
			for rd := 0; rd < rounds && atomic.LoadInt64(&nbad) == 0; rd++ {
				fq := (g*131 + rd*17 + 1) % N
				amp := float64(g + 1)
				x := make([]complex128, N)
				for j := range x {
					sn, cs := math.Sincos(2 * math.Pi * float64((fq*j)%N) / float64(N))
					x[j] = complex(amp*cs, amp*sn)
				}
				orig := append([]complex128(nil), x...)
				var X, back []complex128
				if p, m := guard(func() {
					if g%2 == 0 {
						X = f.Transform(x)
					} else {
						X = ff.Transform(x)
					}
					back = f.Inverse(append([]complex128(nil), X...))
				}); p {
					atomic.AddInt64(&nbad, 1)
					c.Violation(fmt.Sprintf("fft:shared:logN=%d:panic", lg), m, "fftshared", lg)
					return
				}
				tol := 1e-9 * amp * float64(N)
				for k := range X {
					want := complex(0, 0)
					if k == fq {
						want = complex(amp*float64(N), 0)
					}
					if cabs(X[k]-want) > tol || cabs(back[k]-orig[k]) > 1e-9*amp*math.Sqrt(float64(N)) {
						atomic.AddInt64(&nbad, 1)
						c.Violation(fmt.Sprintf("fft:shared:logN=%d", lg), fmt.Sprintf("N=%d, transformer shared by 8 goroutines: tone at %d (amplitude %g) gives X[%d]=%v (want %v), round trip x[%d]=%v (was %v)", N, fq, amp, k, X[k], want, k, back[k], orig[k]), "fftshared", lg)
						return
					}
				}
				c.Count("shared_transformer_concurrent_transforms", 1)
			}
		})
		c.Eval(ev.HashStr(fmt.Sprintf("shared%d", lg)), true)
	}
	// constructor contract
	chk := func(n int) {
		var f fft.FFT
		var err error
		if p, m := guard(func() { f, err = fft.New(n) }); p {
			c.Violation(fmt.Sprintf("fft.New:%d:panic", n), m, "fftnew", n)
			return
		}
		c.Eval(ev.HashStr(fmt.Sprintf("new%d", n)), true)
		c.Count("constructor_cases", 1)
		if n < 2 || n > 1<<27 {
			if err == nil {
				c.Violation(fmt.Sprintf("fft.New:%d", n), fmt.Sprintf("New(%d) accepted (N=%d), must be refused", n, f.N), "fftnew", n)
			}
			return
		}
		want := 1
		for want*2 <= n {
			want *= 2
		}
		if err != nil || f.N != want {
			c.Violation(fmt.Sprintf("fft.New:%d", n), fmt.Sprintf("New(%d): N=%d err=%v, want largest power of two <= n = %d", n, f.N, err, want), "fftnew", n)
			return
		}
		if n <= 4096 && n != want {
			// the transformer built for a non-power-of-two must be a working one of length `want`
			x := make([]complex128, want)
			x[1%want] = 1
			var out []complex128
			if p, m := guard(func() { out = f.Transform(x) }); p {
				c.Violation(fmt.Sprintf("fft.New:%d:transform", n), m, "fftnew", n)
				return
			}
			for k := range out {
				s, cc := math.Sincos(-2 * math.Pi * float64(k) / float64(want))
				if cmplx.Abs(out[k]-complex(cc, s)) > 1e-9 {
					c.Violation(fmt.Sprintf("fft.New:%d:transform", n), fmt.Sprintf("transformer from New(%d) gives X[%d]=%v for a unit impulse at 1", n, k, out[k]), "fftnew", n)
					return
				}
			}
		}
	}
	for _, n := range []int{math.MinInt32, -1, 0, 1, 1<<27 + 1, 1 << 28, math.MaxInt32} {
		chk(n)
	}
	if bits.UintSize == 64 {
		big := int64(1) << 40
		chk(int(big))
		chk(int(-big))
	}
	for n := 2; n <= 4096; n++ {
		chk(n)
	}
	r := gen.NewRng(gen.Mix(seed, 1920))
	for i := 0; i < 40; i++ {
		chk(r.Range(4097, 1<<20))
	}
	if c.Thorough() {
		chk(1 << 27) // 3 GB of tables
		chk(1<<27 - 1)
	}
	// wrong-length slices are refused and left untouched
	for lg := 1; lg <= 12; lg++ {
		N := 1 << uint(lg)
		f, err := fft.New(N)
		if err != nil {
			continue
		}
		for _, l := range []int{0, N - 1, N + 1, 2 * N, N / 2} {
			if l == N || l < 0 {
				continue
			}
			for _, inv := range []bool{false, true} {
				x := make([]complex128, l)
				for j := range x {
					x[j] = complex(float64(j+1), -float64(j))
				}
				snap := append([]complex128(nil), x...)
				pv := panicValue(func() {
					if inv {
						f.Inverse(x)
					} else {
						f.Transform(x)
					}
				})
				c.Eval(ev.HashStr(fmt.Sprintf("wl%d/%d/%v", N, l, inv)), true)
				c.Count("wrong_length_cases", 1)
				same := true
				for j := range x {
					if x[j] != snap[j] {
						same = false
					}
				}
				if pv == nil {
					c.Violation(fmt.Sprintf("fft:wronglen:N=%d:len=%d:inverse=%v", N, l, inv), "a slice of the wrong length was transformed instead of refused", "fftlen", []int{N, l})
				} else if !same {
					c.Violation(fmt.Sprintf("fft:wronglen:N=%d:len=%d:inverse=%v:modified", N, l, inv), "refused but the slice was modified first", "fftlen", []int{N, l})
				}
			}
		}
	}
}

func init() {
	replayers["igamc"] = func(raw json.RawMessage) (bool, string) {
		var cs igCase
		if err := json.Unmarshal(raw, &cs); err != nil {
			return false, err.Error()
		}
		b, _, m := evalIg(cs)
		return b, m
	}
	replayers["thresholdq"] = func(raw json.RawMessage) (bool, string) {
		var cs tqCase
		if err := json.Unmarshal(raw, &cs); err != nil {
			return false, err.Error()
		}
		return evalTQ(cs, gen.NewRng(1))
	}
	replayers["threshold"] = func(raw json.RawMessage) (bool, string) {
		var s int
		if err := json.Unmarshal(raw, &s); err != nil {
			return false, err.Error()
		}
		g, w := detect.Threshold(s), oracle.Threshold(s)
		return g != w, fmt.Sprintf("Threshold(%d)=%d reference %d", s, g, w)
	}
	replayers["fft"] = func(raw json.RawMessage) (bool, string) {
		var cs fftCase
		if err := json.Unmarshal(raw, &cs); err != nil {
			return false, err.Error()
		}
		b, w, m := evalFFT(cs)
		return b, fmt.Sprintf("worst %.3g %s", w, m)
	}
}
