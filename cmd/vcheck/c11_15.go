package main

import (
	"bytes"
	"encoding/json"
	"fmt"
	"io"
	"math"
	"os"
	"path/filepath"
	"runtime"

	R "github.com/Trisia/randomness"
	"github.com/Trisia/randomness/detect"

	"verif/internal/ev"
	"verif/internal/gen"
	"verif/internal/mon"
	"verif/internal/oracle"
)

func init() {
	register("C11", "exploration", runC11)
	register("C15", "exploration", runC15)
}

// ---------------- C11 ----------------

type singleCase struct {
	NumByte int           `json:"num_byte"`
	Content gen.Seq       `json:"content"` // bit sequence of at least NumByte*8 bits (+ extra tail)
	Chunk   mon.ChunkPlan `json:"chunk"`
}

func singleM(bits int) int {
	switch {
	case bits < 320:
		return 2
	case bits < 10240:
		return 4
	}
	return 8
}

type singleOutcome struct {
	Verdict   bool
	Err       string
	Consumed  int64
	RefP      float64
	WantErr   bool
	Want      bool
	Ambiguous bool
	Panic     string
}

func evalSingle(cs singleCase) (o singleOutcome, bad bool, msg string) {
	bits := cs.Content.Bits()
	data := gen.Pack(bits[:len(bits)/8*8])
	var seq int64
	rd := mon.NewReader(data, cs.Chunk, nil, mon.DelayPlan{}, &seq)
	rd.MaxEvents = 0
	var v bool
	var err error
	if p, m := guard(func() { v, err = detect.SingleDetect(rd, cs.NumByte) }); p {
		o.Panic = m
		return o, true, m
	}
	o.Verdict = v
	if err != nil {
		o.Err = err.Error()
	}
	o.Consumed = rd.Delivered()
	o.WantErr = cs.NumByte < 16
	if !o.WantErr {
		m := singleM(cs.NumByte * 8)
		o.RefP, _ = oracle.Poker(oracle.Bits(bits[:cs.NumByte*8]), m)
		o.Want = o.RefP >= 0.01
		o.Ambiguous = math.Abs(o.RefP-0.01) < 1e-9
	}
	if o.Consumed != int64(cs.NumByte) {
		return o, true, fmt.Sprintf("SingleDetect(%d) consumed %d bytes", cs.NumByte, o.Consumed)
	}
	if o.WantErr {
		if err == nil || v {
			return o, true, fmt.Sprintf("SingleDetect(%d) -> (%v, %v); fewer than 16 bytes must give (false, error)", cs.NumByte, v, err)
		}
		return o, false, "error as required"
	}
	if err != nil {
		return o, true, fmt.Sprintf("SingleDetect(%d) unexpected error %v", cs.NumByte, err)
	}
	if o.Ambiguous {
		return o, false, "ambiguous"
	}
	if v != o.Want {
		return o, true, fmt.Sprintf("SingleDetect(%d) = %v but poker(m=%d) P = %.6g (>= 0.01 is %v)", cs.NumByte, v, singleM(cs.NumByte*8), o.RefP, o.Want)
	}
	return o, false, fmt.Sprintf("verdict %v, reference poker(m=%d) P=%.6g", v, singleM(cs.NumByte*8), o.RefP)
}

func runC11(c *ev.Ctx) {
	c.Rule = "each case = SingleDetect(reader, numByte) on generated content; oracle: error iff numByte<16, else verdict == (reference poker P with m=2 below 320 bits, 4 from 320, 8 from 10240) >= 0.01; reader monitor: exactly numByte bytes consumed (also under short-read plans). Every length 0..4096 x {PRNG, zeros, ones, slightly biased}; m-discriminating contents (verdict differs between the correct m and a neighbouring m) are searched by bias scanning and by construction around 39/40 and 1279/1280 bytes and at seeded lengths. non-trivial = m-discriminating content, or reference P within [0.001,0.1], or a length < 16 / at an m switch; distinct = distinct (length, content descriptor, plan)"
	c.Assumptions = []string{"reference poker statistic and exact Q in internal/oracle"}
	seed := uint64(c.Seed)
	var cases []singleCase
	extra := 64
	top := 4096
	for nb := 0; nb <= top; nb++ {
		for k, fam := range []string{"uniform", "zeros", "ones", "slight"} {
			pl := mon.ChunkPlan{Kind: "whole"}
			if (nb+k)%5 == 0 {
				pl = mon.ChunkPlan{Kind: "fixed", Size: 1 + (nb % 13)}
			}
			cases = append(cases, singleCase{NumByte: nb, Content: gen.Seq{Fam: fam, N: (nb + extra) * 8, Seed: gen.Mix(seed, 11, uint64(nb), uint64(k))}, Chunk: pl})
		}
	}
	// large requests dominated by one byte value (counts of 2^16 and more in one bin) and their random controls
	for k, nb := range []int{65535, 65536, 65537, 131072, 131075, 262144, 1 << 20, 1<<20 + 3} {
		for j, sq := range []gen.Seq{{Fam: "zeros"}, {Fam: "ones"}, {Fam: "sparse", A: 3}, {Fam: "bias", A: 2}, {Fam: "bias", A: 998}, {Fam: "uniform"}, {Fam: "bytepat", Hex: "a5"}} {
			sq.N = (nb + extra) * 8
			sq.Seed = gen.Mix(seed, 1112, uint64(nb), uint64(j))
			pl := mon.ChunkPlan{Kind: "whole"}
			if (k+j)%4 == 0 {
				pl = mon.ChunkPlan{Kind: "fixed", Size: 4096}
			}
			cases = append(cases, singleCase{NumByte: nb, Content: sq, Chunk: pl})
		}
	}
	lens := []int{16, 17, 20, 30, 38, 39, 40, 41, 42, 50, 64, 100, 500, 1000, 1270, 1278, 1279, 1280, 1281, 1282, 1300, 2000, 4096}
	r := gen.NewRng(gen.Mix(seed, 1111))
	nExtra := 8
	if c.Thorough() {
		nExtra = 400
		lens = append(lens, 5000, 10000, 65536, 125000)
	}
	for i := 0; i < nExtra; i++ {
		lens = append(lens, r.Range(16, 4096))
	}
	// m-discriminating contents
	disc := 0
	for _, nb := range lens {
		m := singleM(nb * 8)
		others := []int{2, 4, 8}
		// (a) constructed: uniform over small patterns, concentrated over larger ones
		constructs := [][]byte{{0x1B}, {0x01, 0x23, 0x45, 0x67, 0x89, 0xAB, 0xCD, 0xEF}, {0x1B, 0xB1, 0xE4, 0x4E}}
		for _, pat := range constructs {
			bits := make([]uint8, 0, (nb+extra)*8)
			for len(bits) < (nb+extra)*8 {
				bits = append(bits, gen.Unpack(pat)...)
			}
			bits = bits[:(nb+extra)*8]
			cases = append(cases, singleCase{NumByte: nb, Content: gen.Explicit(bits), Chunk: mon.ChunkPlan{Kind: "whole"}})
		}
		// (b) bias scan
		found := 0
		for step := 0; step < 140 && found < 6; step++ {
			bias := 500 + step*2
			if step%2 == 1 {
				bias = 500 - step*2
			}
			sq := gen.Seq{Fam: "bias", N: (nb + extra) * 8, A: bias, Seed: gen.Mix(seed, 12, uint64(nb), uint64(step))}
			bits := sq.Bits()[:nb*8]
			pc, _ := oracle.Poker(oracle.Bits(bits), m)
			for _, mo := range others {
				if mo == m || nb*8/mo < 1 {
					continue
				}
				po, _ := oracle.Poker(oracle.Bits(bits), mo)
				if (pc >= 0.01) != (po >= 0.01) && math.Abs(pc-0.01) > 1e-6 {
					cases = append(cases, singleCase{NumByte: nb, Content: sq, Chunk: mon.ChunkPlan{Kind: []string{"whole", "random"}[found%2], Seed: uint64(step)}})
					found++
					break
				}
			}
		}
		disc += found
	}
	c.Count("m_discriminating_contents_found_by_bias_scan", int64(disc))
	// soak: more than 2^16 calls in one process on three fixed requests; call k must decide like call 1
	for _, nb := range []int{16, 40, 1280} {
		cs := singleCase{NumByte: nb, Content: gen.Seq{Fam: "slight", N: (nb + 8) * 8, Seed: gen.Mix(seed, 1199, uint64(nb))}, Chunk: mon.ChunkPlan{Kind: "whole"}}
		first, bad1, _ := evalSingle(cs)
		n := 70000
		if nb > 100 {
			n = 5000
		}
		if c.Lite() {
			n /= 6
		}
		data := gen.Pack(cs.Content.Bits())
		for k := 2; k <= n && !bad1; k++ {
			v, err := detect.SingleDetect(bytes.NewReader(data), nb)
			if v != first.Verdict || (err != nil) != (first.Err != "") {
				c.Violation(fmt.Sprintf("single:soak:numByte=%d:call%d", nb, k), fmt.Sprintf("call number %d returned (%v,%v), the first call (%v,%q)", k, v, err, first.Verdict, first.Err), "single", cs)
				break
			}
		}
		c.Count("soak_repeated_calls", int64(n))
	}
	if c.Lite() {
		var keep []singleCase
		for i, cs := range cases {
			if i%6 == 0 {
				keep = append(keep, cs)
			}
		}
		cases = keep
	}
	parallel(len(cases), func(i int) {
		cs := cases[i]
		o, bad, msg := evalSingle(cs)
		nt := cs.NumByte < 16 || (o.RefP >= 0.001 && o.RefP <= 0.1)
		if !nt && cs.NumByte >= 16 {
			// discriminating: another m would have decided differently
			m := singleM(cs.NumByte * 8)
			bits := cs.Content.Bits()[:cs.NumByte*8]
			for _, mo := range []int{2, 4, 8} {
				if mo != m {
					po, _ := oracle.Poker(oracle.Bits(bits), mo)
					if (po >= 0.01) != o.Want {
						nt = true
						c.Count("m_discriminating_cases_evaluated", 1)
						break
					}
				}
			}
		}
		c.Eval(ev.HashStr(fmt.Sprintf("%d|%s|%v", cs.NumByte, cs.Content.String(), cs.Chunk)), nt)
		c.Count("bytes_consumed_checked", 1)
		if o.Ambiguous {
			c.Count("ambiguous_at_0.01", 1)
		}
		if bad {
			c.Violation(fmt.Sprintf("single:numByte=%d:%s", cs.NumByte, cs.Content.String()), msg, "single", cs)
		} else if nt && cs.NumByte >= 16 && i%401 == 0 {
			c.Sample(map[string]interface{}{"numByte": cs.NumByte, "content": cs.Content.String(), "plan": cs.Chunk, "result": msg})
		}
	})
}

// ---------------- C15 ----------------

func same2(p1, q1, p2, q2 float64) bool { return same(p1, p2) && same(q1, q2) }

func same(a, b float64) bool {
	return math.Float64bits(a) == math.Float64bits(b) || (math.IsNaN(a) && math.IsNaN(b))
}

type epCase struct {
	Seq gen.Seq `json:"seq"`
}

// evalEntryPoints runs every agreement clause on one byte string; returns the list of disagreements.
func evalEntryPoints(data []byte, c *ev.Ctx) (bad []string, distinctAll bool) {
	bits := gen.Bools(gen.Unpack(data)) // the harness's own MSB-first expansion
	n := len(bits)
	cmp := func(name string, a, b []float64) {
		if c != nil {
			c.Count("entry_point_comparisons", 1)
		}
		for i := range a {
			if !same(a[i], b[i]) {
				bad = append(bad, fmt.Sprintf("%s: %v vs %v", name, a, b))
				return
			}
		}
	}
	call := func(name string, f func() []float64) []float64 {
		var out []float64
		if p, m := guard(func() { out = f() }); p {
			bad = append(bad, name+": "+clip(m, 300))
			return nil
		}
		return out
	}
	two := func(name string, fa, fb func() (float64, float64)) {
		a := call(name+"[bytes]", func() []float64 { p, q := fa(); return []float64{p, q} })
		b := call(name+"[bits]", func() []float64 { p, q := fb(); return []float64{p, q} })
		if a != nil && b != nil {
			cmp(name, a, b)
		}
	}
	// 1. byte-oriented vs bit-oriented entry points
	two("MonoBitFrequencyTestBytes", func() (float64, float64) { return R.MonoBitFrequencyTestBytes(data) }, func() (float64, float64) { return R.MonoBitFrequencyTest(bits) })
	for _, m := range []int{10, 100, 1000, 10000} {
		if m <= n {
			m := m
			two(fmt.Sprintf("FrequencyWithinBlockTestBytes(m=%d)", m), func() (float64, float64) { return R.FrequencyWithinBlockTestBytes(data, m) }, func() (float64, float64) { return R.FrequencyWithinBlockProto(bits, m) })
		}
	}
	for _, m := range []int{2, 4, 8} {
		m := m
		two(fmt.Sprintf("PokerTestBytes(m=%d)", m), func() (float64, float64) { return R.PokerTestBytes(data, m) }, func() (float64, float64) { return R.PokerProto(bits, m) })
	}
	for _, m := range []int{2, 3, 5, 7} {
		m := m
		a := call("OverlappingTemplateMatchingTestBytes", func() []float64 {
			p1, p2, q1, q2 := R.OverlappingTemplateMatchingTestBytes(data, m)
			return []float64{p1, p2, q1, q2}
		})
		b := call("OverlappingTemplateMatchingProto", func() []float64 {
			p1, p2, q1, q2 := R.OverlappingTemplateMatchingProto(bits, m)
			return []float64{p1, p2, q1, q2}
		})
		if a != nil && b != nil {
			cmp(fmt.Sprintf("OverlappingTemplateMatchingTestBytes(m=%d)", m), a, b)
		}
	}
	two("RunsTestBytes", func() (float64, float64) { return R.RunsTestBytes(data) }, func() (float64, float64) { return R.RunsTest(bits) })
	two("RunsDistributionTestBytes", func() (float64, float64) { return R.RunsDistributionTestBytes(data) }, func() (float64, float64) { return R.RunsDistributionTest(bits) })
	for _, one := range []bool{true, false} {
		one := one
		two(fmt.Sprintf("LongestRunOfOnesInABlockTestBytes(%v)", one), func() (float64, float64) { return R.LongestRunOfOnesInABlockTestBytes(data, one) }, func() (float64, float64) { return R.LongestRunOfOnesInABlockProto(bits, one) })
		two(fmt.Sprintf("LongestRunOfOnesInABlockTest(%v)", one), func() (float64, float64) { return R.LongestRunOfOnesInABlockTest(bits, one) }, func() (float64, float64) { return R.LongestRunOfOnesInABlockProto(bits, one) })
	}
	for _, k := range []int{3, 7, 15} {
		k := k
		two(fmt.Sprintf("BinaryDerivativeTestBytes(k=%d)", k), func() (float64, float64) { return R.BinaryDerivativeTestBytes(data, k) }, func() (float64, float64) { return R.BinaryDerivativeProto(bits, k) })
		two(fmt.Sprintf("BinaryDerivativeTest(k=%d)", k), func() (float64, float64) { return R.BinaryDerivativeTest(bits, k) }, func() (float64, float64) { return R.BinaryDerivativeProto(bits, k) })
	}
	for _, d := range []int{1, 2, 8, 16, 32} {
		d := d
		two(fmt.Sprintf("AutocorrelationTestBytes(d=%d)", d), func() (float64, float64) { return R.AutocorrelationTestBytes(data, d) }, func() (float64, float64) { return R.AutocorrelationProto(bits, d) })
		two(fmt.Sprintf("AutocorrelationTest(d=%d)", d), func() (float64, float64) { return R.AutocorrelationTest(bits, d) }, func() (float64, float64) { return R.AutocorrelationProto(bits, d) })
	}
	two("MatrixRankTestBytes", func() (float64, float64) { return R.MatrixRankTestBytes(data, 32, 32) }, func() (float64, float64) { return R.MatrixRankProto(bits, 32, 32) })
	two("MatrixRankTest", func() (float64, float64) { return R.MatrixRankTest(bits) }, func() (float64, float64) { return R.MatrixRankProto(bits, 32, 32) })
	for _, f := range []bool{true, false} {
		f := f
		two(fmt.Sprintf("CumulativeTestBytes(%v)", f), func() (float64, float64) { return R.CumulativeTestBytes(data, f) }, func() (float64, float64) { return R.CumulativeTest(bits, f) })
	}
	for _, m := range []int{2, 5, 7} {
		m := m
		two(fmt.Sprintf("ApproximateEntropyTestBytes(m=%d)", m), func() (float64, float64) { return R.ApproximateEntropyTestBytes(data, m) }, func() (float64, float64) { return R.ApproximateEntropyProto(bits, m) })
	}
	for _, m := range []int{500, 1000, 5000} {
		if m <= n && (m < 5000 || n <= 200000) {
			m := m
			two(fmt.Sprintf("LinearComplexityTestBytes(m=%d)", m), func() (float64, float64) { return R.LinearComplexityTestBytes(data, m) }, func() (float64, float64) { return R.LinearComplexityProto(bits, m) })
		}
	}
	full := n >= 8967
	if full {
		two("MaurerUniversalTestBytes", func() (float64, float64) { return R.MaurerUniversalTestBytes(data) }, func() (float64, float64) { return R.MaurerUniversalTest(bits) })
	}
	two("DiscreteFourierTransformTestBytes", func() (float64, float64) { return R.DiscreteFourierTransformTestBytes(data) }, func() (float64, float64) { return R.DiscreteFourierTransformTest(bits) })
	// default-parameter bit-level entry points
	two("PokerTest=m8", func() (float64, float64) { return R.PokerTest(bits) }, func() (float64, float64) { return R.PokerProto(bits, 8) })
	two("ApproximateEntropyTest=m5", func() (float64, float64) { return R.ApproximateEntropyTest(bits) }, func() (float64, float64) { return R.ApproximateEntropyProto(bits, 5) })
	two("LinearComplexityTest=m500", func() (float64, float64) { return R.LinearComplexityTest(bits) }, func() (float64, float64) { return R.LinearComplexityProto(bits, 500) })
	two("FrequencyWithinBlockTest=auto", func() (float64, float64) { return R.FrequencyWithinBlockTest(bits) }, func() (float64, float64) { return R.FrequencyWithinBlockProto(bits, oracle.AutoBlockLen(n)) })
	{
		a := call("OverlappingTemplateMatchingTest", func() []float64 {
			p1, p2, q1, q2 := R.OverlappingTemplateMatchingTest(bits)
			return []float64{p1, p2, q1, q2}
		})
		b := call("OverlappingTemplateMatchingProto5", func() []float64 {
			p1, p2, q1, q2 := R.OverlappingTemplateMatchingProto(bits, 5)
			return []float64{p1, p2, q1, q2}
		})
		if a != nil && b != nil {
			cmp("OverlappingTemplateMatchingTest=m5", a, b)
		}
	}

	// 2. registry runners use the standard's defaults; Pass == (P >= 0.01)
	type def struct {
		name string
		f    func() []float64 // P, Q [,P2,Q2]
	}
	pq := func(f func() (float64, float64)) func() []float64 {
		return func() []float64 { p, q := f(); return []float64{p, q} }
	}
	defs := []def{
		{"monobit", pq(func() (float64, float64) { return R.MonoBitFrequencyTest(bits) })},
		{"block frequency (automatic m)", pq(func() (float64, float64) { return R.FrequencyWithinBlockProto(bits, oracle.AutoBlockLen(n)) })},
		{"poker m=8", pq(func() (float64, float64) { return R.PokerProto(bits, 8) })},
		{"overlapping m=5", func() []float64 {
			p1, p2, q1, q2 := R.OverlappingTemplateMatchingProto(bits, 5)
			return []float64{p1, q1, p2, q2}
		}},
		{"runs", pq(func() (float64, float64) { return R.RunsTest(bits) })},
		{"runs distribution", pq(func() (float64, float64) { return R.RunsDistributionTest(bits) })},
		{"longest run of ones", pq(func() (float64, float64) { return R.LongestRunOfOnesInABlockProto(bits, true) })},
		{"binary derivative k=7", pq(func() (float64, float64) { return R.BinaryDerivativeProto(bits, 7) })},
		{"autocorrelation d=16", pq(func() (float64, float64) { return R.AutocorrelationProto(bits, 16) })},
		{"rank 32x32", pq(func() (float64, float64) { return R.MatrixRankProto(bits, 32, 32) })},
		{"cusum forward", pq(func() (float64, float64) { return R.CumulativeTest(bits, true) })},
		{"approximate entropy m=5", pq(func() (float64, float64) { return R.ApproximateEntropyProto(bits, 5) })},
		{"linear complexity m=500", pq(func() (float64, float64) { return R.LinearComplexityProto(bits, 500) })},
		{"Maurer", pq(func() (float64, float64) { return R.MaurerUniversalTest(bits) })},
		{"DFT", pq(func() (float64, float64) { return R.DiscreteFourierTransformTest(bits) })},
	}
	if len(R.TestMethodArr) != 15 {
		bad = append(bad, fmt.Sprintf("registry has %d entries, want 15", len(R.TestMethodArr)))
		return bad, false
	}
	top := 15
	if !full {
		top = 12
	}
	runnerRes := make([]*R.TestResult, 15)
	want := make([][]float64, 15)
	for i := 0; i < top; i++ {
		i := i
		var res *R.TestResult
		if p, m := guard(func() { res = R.TestMethodArr[i].Runner(data) }); p || res == nil {
			bad = append(bad, fmt.Sprintf("registry runner %d (%s): %s", i+1, defs[i].name, clip(m, 300)))
			continue
		}
		runnerRes[i] = res
		w := call("default "+defs[i].name, defs[i].f)
		if w == nil {
			continue
		}
		want[i] = w
		got := []float64{res.P, res.Q}
		if len(w) == 4 {
			got = []float64{res.P, res.Q, res.P2, res.Q2}
		}
		cmp(fmt.Sprintf("registry[%d] vs %s", i+1, defs[i].name), got, w)
		minP := res.P
		if len(w) == 4 && res.P2 < minP {
			minP = res.P2
		}
		if res.Pass != (minP >= 0.01) {
			bad = append(bad, fmt.Sprintf("registry[%d] %s: Pass=%v but P=%v (P2=%v)", i+1, defs[i].name, res.Pass, res.P, res.P2))
		}
	}
	// 3. rounds
	if full {
		var r15 []*R.TestResult
		if p, m := guard(func() { r15 = detect.Round15(data) }); p {
			bad = append(bad, "Round15: "+clip(m, 300))
		} else if len(r15) != 15 {
			bad = append(bad, fmt.Sprintf("Round15 returned %d results", len(r15)))
		} else {
			for i := range r15 {
				if runnerRes[i] != nil && r15[i] != nil {
					cmp(fmt.Sprintf("Round15[%d] vs runner", i+1), []float64{r15[i].P, r15[i].Q, r15[i].P2, r15[i].Q2}, []float64{runnerRes[i].P, runnerRes[i].Q, runnerRes[i].P2, runnerRes[i].Q2})
					if r15[i].Pass != runnerRes[i].Pass {
						bad = append(bad, fmt.Sprintf("Round15[%d].Pass differs", i+1))
					}
				}
			}
		}
	}
	var r12 []*R.TestResult
	if p, m := guard(func() { r12 = detect.Round12(data) }); p {
		bad = append(bad, "Round12: "+clip(m, 300))
	} else if len(r12) != 12 {
		bad = append(bad, fmt.Sprintf("Round12 returned %d results", len(r12)))
	} else {
		for i := range r12 {
			if runnerRes[i] != nil && r12[i] != nil {
				cmp(fmt.Sprintf("Round12[%d] vs runner", i+1), []float64{r12[i].P, r12[i].Q, r12[i].P2, r12[i].Q2}, []float64{runnerRes[i].P, runnerRes[i].Q, runnerRes[i].P2, runnerRes[i].Q2})
			}
		}
	}
	// 4. registry order is identified behaviourally when all defaults differ
	distinctAll = true
	for i := 0; i < top && distinctAll; i++ {
		for j := i + 1; j < top; j++ {
			if want[i] == nil || want[j] == nil || (same(want[i][0], want[j][0]) && same(want[i][1], want[j][1])) {
				distinctAll = false
				break
			}
		}
	}
	if distinctAll && c != nil {
		c.Count("inputs_where_all_defaults_differ (order identified)", 1)
	}
	return bad, distinctAll
}

func runC15(c *ev.Ctx) {
	c.Rule = "each case = one byte string on which every agreement clause is evaluated with bit-identical comparison: XTestBytes(data,param) vs XProto(harness MSB-first expansion,param) for all tests and documented parameters; default-parameter entry points; registry runner i vs the standard's default for test i and Pass==(P>=0.01); Round15/Round12 vs the runners; file loader vs expansion; B2Byte/B2bit round trip for all 256 bytes; registry unchanged. non-trivial = a string on which all fifteen default results are pairwise different (so order and defaults are identified), or a degenerate family; distinct = distinct sequence descriptor"
	c.Assumptions = []string{"the harness's own MSB-first expansion (gen.Unpack) is the definition of 'most-significant-bit-first'"}
	seed := uint64(c.Seed)
	before := append([]R.TestItem(nil), R.TestMethodArr...)
	lens := []int{128, 129, 200, 1000, 1121, 1122, 1250, 2500, 4096, 12500}
	if c.Thorough() {
		lens = append(lens, 125000, 125001, 1250000)
	} else {
		lens = append(lens, 125000)
	}
	fams := []string{"slight", "uniform", "biased", "markov", "zeros", "ones", "alt", "byteperiodic", "sparse", "lfsr", "longruns"}
	var cases []epCase
	for _, nb := range lens {
		for fi, f := range fams {
			reps := 2
			if f == "longruns" {
				reps = 6
			} else if nb >= 125000 {
				reps = 1
				if fi > 3 && nb > 125001 && f != "longruns" {
					continue
				}
			}
			for r := 0; r < reps; r++ {
				sq := gen.Seq{Fam: f, N: nb * 8, Seed: gen.Mix(seed, 15, uint64(nb), uint64(r), uint64(fi))}
				if f == "longruns" {
					sq.A = 3 + r
				}
				cases = append(cases, epCase{sq})
			}
		}
	}
	// walks whose extreme is reached within a bit or two of a 64-bit word boundary (word-at-a-time byte paths)
	for _, nb := range []int{128, 256, 1000, 2504} {
		for _, k := range []int{1, 2, 3, 31, 32, 33, 62, 63} {
			for o := 0; o < 4; o++ {
				cases = append(cases, epCase{gen.Seq{Fam: "cusumword", N: nb * 8, A: k, B: o, Seed: gen.Mix(seed, 1515, uint64(nb), uint64(k), uint64(o))}})
			}
		}
	}
	if c.Lite() {
		var keep []epCase
		for i, cs := range cases {
			if i%3 == 0 {
				keep = append(keep, cs)
			}
		}
		cases = keep
	}
	parallel(len(cases), func(i int) {
		cs := cases[i]
		data := gen.Pack(cs.Seq.Bits())
		pre := c.NSamples()
		_ = pre
		bad, da := evalEntryPoints(data, c)
		c.Eval(ev.HashStr(cs.Seq.String()), da || degenerateFam(cs.Seq.Fam))
		for _, b := range bad {
			c.Violation("entrypoints:"+cs.Seq.String()+":"+clip(b, 60), b, "entrypoints", cs)
			break
		}
		if len(bad) == 0 && i%17 == 0 {
			c.Sample(map[string]interface{}{"bytes": cs.Seq.String(), "result": "all entry points, registry runners and rounds agree bit for bit"})
		}
	})
	// heavy hitters: one pattern occurring 2^14 .. 2^17 (+-1) times next to an even spread of all byte values, so
	// that a narrow counter on the byte path (uint16 tables) wraps to a histogram the bit path does not see;
	// an all-zero input cannot show it (P = 0 on both paths), the spread makes the two histograms differ
	{
		var hh int64
		for hi, cnt := range []int{16384, 32768, 65535, 65536, 65537, 131072} {
			for _, hv := range []byte{0x00, 0xFF, 0xA5} {
				for _, spread := range []int{0, 232} {
					if spread == 0 && cnt != 65536 {
						continue
					}
					data := make([]byte, 0, cnt+256*spread)
					for v := 0; v < 256; v++ {
						for k := 0; k < spread; k++ {
							data = append(data, byte(v))
						}
					}
					for k := 0; k < cnt; k++ {
						data = append(data, hv)
					}
					hr := gen.NewRng(gen.Mix(seed, 1515, uint64(hi), uint64(hv)))
					for i := len(data) - 1; i > 0; i-- {
						j := hr.Intn(i + 1)
						data[i], data[j] = data[j], data[i]
					}
					bits := gen.Bools(gen.Unpack(data))
					what := fmt.Sprintf("heavy:%d x 0x%02x + %d x each byte value, shuffled", cnt, hv, spread)
					type two struct {
						name string
						a, b func() (float64, float64)
					}
					var ts []two
					for _, m := range []int{2, 4, 8} {
						m := m
						ts = append(ts, two{fmt.Sprintf("PokerTestBytes(m=%d)", m), func() (float64, float64) { return R.PokerTestBytes(data, m) }, func() (float64, float64) { return R.PokerProto(bits, m) }})
					}
					for _, m := range []int{2, 5} {
						m := m
						ts = append(ts, two{fmt.Sprintf("ApproximateEntropyTestBytes(m=%d)", m), func() (float64, float64) { return R.ApproximateEntropyTestBytes(data, m) }, func() (float64, float64) { return R.ApproximateEntropyProto(bits, m) }})
					}
					ts = append(ts, two{"FrequencyWithinBlockTestBytes(m=10)", func() (float64, float64) { return R.FrequencyWithinBlockTestBytes(data, 10) }, func() (float64, float64) { return R.FrequencyWithinBlockProto(bits, 10) }})
					ts = append(ts, two{"RunsDistributionTestBytes", func() (float64, float64) { return R.RunsDistributionTestBytes(data) }, func() (float64, float64) { return R.RunsDistributionTest(bits) }})
					ts = append(ts, two{"MonoBitFrequencyTestBytes", func() (float64, float64) { return R.MonoBitFrequencyTestBytes(data) }, func() (float64, float64) { return R.MonoBitFrequencyTest(bits) }})
					for _, t := range ts {
						var pa, qa, pb, qb float64
						if p, m := guard(func() { pa, qa = t.a(); pb, qb = t.b() }); p {
							c.Violation("entrypoints:"+what+":"+t.name+":panic", m, "heavy", what)
							continue
						}
						hh++
						if !same2(pa, qa, pb, qb) {
							c.Violation("entrypoints:"+what+":"+t.name, fmt.Sprintf("%s: bytes [%v %v] vs bits [%v %v]", t.name, pa, qa, pb, qb), "heavy", what)
						}
					}
					c.Eval(ev.HashStr(what), true)
				}
			}
		}
		c.Count("heavy_hitter_comparisons", hh)
	}
	// file loader
	dir := os.Getenv("VERIF_WORK")
	if dir == "" {
		dir = os.TempDir()
	}
	// contents that look like something else to a format-sniffing loader: byte-order marks, archive /
	// script magic numbers, ASCII digits and line ends, NULs; the loader must treat every byte as data
	magic := [][]byte{{0xEF, 0xBB, 0xBF}, {0xFF, 0xFE}, {0xFE, 0xFF}, {0xFF, 0xFE, 0, 0}, {0x1F, 0x8B, 8}, []byte("PK\x03\x04"), []byte("#!/bin/sh\n"), []byte("0101\n1010\r\n"),
		[]byte(" \t\n"), {0, 0, 0, 0}, []byte("\x89PNG\r\n\x1a\n"), []byte("BZh9"), []byte("\xFD7zXZ\x00"), []byte("-----BEGIN"), {0x0A}, {0x0D, 0x0A}, {0x1A}, {0x04}}
	type fcase struct {
		data []byte
		what string
	}
	var fcases []fcase
	for _, sz := range []int{0, 1, 7, 125000, 200001} {
		fcases = append(fcases, fcase{gen.NewRng(gen.Mix(seed, 151, uint64(sz))).Bytes(sz), fmt.Sprintf("random %d bytes", sz)})
	}
	for mi, mg := range magic {
		body := gen.NewRng(gen.Mix(seed, 152, uint64(mi))).Bytes(2500)
		fcases = append(fcases, fcase{append(append([]byte{}, mg...), body...), fmt.Sprintf("prefix %q + 2500 random bytes", mg)})
		fcases = append(fcases, fcase{append(append([]byte{}, body...), mg...), fmt.Sprintf("2500 random bytes + suffix %q", mg)})
		fcases = append(fcases, fcase{append([]byte{}, mg...), fmt.Sprintf("only %q", mg)})
	}
	for k, fc := range fcases {
		data := fc.data
		sz := len(data)
		fn := filepath.Join(dir, fmt.Sprintf("c15-%d.bin", k))
		_ = os.WriteFile(fn, data, 0o644)
		var got []bool
		path := fn
		var cleanup []string
		switch k % 4 {
		case 1: // through a symbolic link with a relative target, in another directory
			ld := filepath.Join(dir, fmt.Sprintf("c15-links-%d", k))
			_ = os.MkdirAll(ld, 0o755)
			path = filepath.Join(ld, "sample.bin")
			_ = os.Symlink(filepath.Join("..", filepath.Base(fn)), path)
			cleanup = append(cleanup, path, ld)
		case 2: // through a symbolic link with an absolute target
			path = filepath.Join(dir, fmt.Sprintf("c15-abs-link-%d.bin", k))
			_ = os.Symlink(fn, path)
			cleanup = append(cleanup, path)
		case 3: // through a path with redundant elements
			path = filepath.Join(dir, ".", "..", filepath.Base(dir), filepath.Base(fn))
		}
		p, m := guard(func() { got = R.ReadGroup(path) })
		for _, x := range cleanup {
			os.Remove(x)
		}
		os.Remove(fn)
		c.Eval(ev.HashStr("readgroup"+fc.what), true)
		c.Count("file_loader_cases", 1)
		if p {
			c.Violation(fmt.Sprintf("ReadGroup:%s:panic", fc.what), m, "readgroup", sz)
			continue
		}
		want := gen.Unpack(data)
		var lib []bool
		guard(func() { lib = R.B2bitArr(data) })
		ok := len(got) == len(want) && len(lib) == len(want)
		for i := 0; ok && i < len(want); i++ {
			if got[i] != (want[i] == 1) || lib[i] != (want[i] == 1) {
				ok = false
			}
		}
		if !ok {
			c.Violation("ReadGroup:"+fc.what, fmt.Sprintf("file loader / B2bitArr disagree with MSB-first expansion of the file's bytes (%d bits loaded, %d expected)", len(got), len(want)), "readgroup", sz)
		}
	}
	for b := 0; b < 256; b++ {
		var bits []bool
		var back byte
		guard(func() { bits = R.B2bit(byte(b)); back = R.B2Byte(bits) })
		want := gen.Unpack([]byte{byte(b)})
		ok := len(bits) == 8 && back == byte(b)
		for i := 0; ok && i < 8; i++ {
			if bits[i] != (want[i] == 1) {
				ok = false
			}
		}
		c.Eval(ev.HashStr(fmt.Sprintf("b2bit%d", b)), true)
		if !ok {
			c.Violation(fmt.Sprintf("B2bit:%d", b), fmt.Sprintf("B2bit(%#x)=%v B2Byte(..)=%#x", b, bits, back), "b2bit", b)
		}
	}
	// a caller is free to write to, and append to, the slices the library hands back; the library's later
	// answers must not change because of that
	{
		for b := 0; b < 256; b++ {
			var got []bool
			guard(func() { got = R.B2bit(byte(b)) })
			for i := range got {
				got[i] = !got[i]
			}
			guard(func() { got = append(got, R.B2bit(byte(255-b))...); _ = append(got, true, false, true) })
		}
		sample := gen.NewRng(gen.Mix(seed, 1555)).Bytes(4000)
		var arr []bool
		guard(func() { arr = R.B2bitArr(sample) })
		for i := range arr {
			arr[i] = true
		}
		guard(func() { _ = append(arr[:8], make([]bool, 64)...) })
		bad := 0
		for b := 0; b < 256; b++ {
			var bits []bool
			guard(func() { bits = R.B2bit(byte(b)) })
			want := gen.Unpack([]byte{byte(b)})
			ok := len(bits) == 8
			for i := 0; ok && i < 8; i++ {
				if bits[i] != (want[i] == 1) {
					ok = false
				}
			}
			c.Eval(ev.HashStr(fmt.Sprintf("b2bit-after-mutation%d", b)), true)
			if !ok && bad < 3 {
				bad++
				c.Violation(fmt.Sprintf("B2bit:%d:after-caller-wrote-to-returned-slice", b), fmt.Sprintf("B2bit(%#x)=%v after a caller had written to / appended to slices returned earlier", b, bits), "b2bit", b)
			}
		}
		if probs, _ := evalEntryPoints(sample[:1250], c); len(probs) > 0 {
			c.Violation("entrypoints:after-caller-wrote-to-returned-slices", probs[0], "entrypoints", epCase{})
		}
		c.Count("returned_slices_mutated_by_the_caller", 257)
	}
	// runtime settings changed while the process runs: GOMAXPROCS raised and lowered, then large inputs
	// (1 MiB and more) through the byte entry points against the bit entry points on our own expansion
	{
		orig := runtime.GOMAXPROCS(0)
		for gi, gm := range []int{2 * orig, 3, orig + 1, orig} {
			runtime.GOMAXPROCS(gm)
			if c.Lite() && gi > 1 {
				continue
			}
			nb := []int{1 << 20, 1<<20 + 13, 1200007, 1<<21 + 5}[gi]
			data := gen.NewRng(gen.Mix(seed, 1556, uint64(gi))).Bytes(nb)
			want := gen.Bools(gen.Unpack(data))
			var lib []bool
			if p, m := guard(func() { lib = R.B2bitArr(data) }); p {
				c.Violation(fmt.Sprintf("B2bitArr:%dB:GOMAXPROCS=%d:panic", nb, gm), m, "b2bit", nb)
				continue
			}
			same := len(lib) == len(want)
			for i := 0; same && i < len(want); i++ {
				if lib[i] != want[i] {
					same = false
					c.Violation(fmt.Sprintf("B2bitArr:%dB:GOMAXPROCS=%d", nb, gm), fmt.Sprintf("B2bitArr of %d bytes differs from the MSB-first expansion at bit %d after GOMAXPROCS was changed from %d to %d inside the process", nb, i, orig, gm), "b2bit", nb)
				}
			}
			type pair struct {
				name string
				a, b func() (float64, float64)
			}
			for _, pr := range []pair{
				{"RunsTestBytes", func() (float64, float64) { return R.RunsTestBytes(data) }, func() (float64, float64) { return R.RunsTest(want) }},
				{"RunsDistributionTestBytes", func() (float64, float64) { return R.RunsDistributionTestBytes(data) }, func() (float64, float64) { return R.RunsDistributionTest(want) }},
				{"LongestRunOfOnesInABlockTestBytes", func() (float64, float64) { return R.LongestRunOfOnesInABlockTestBytes(data, true) }, func() (float64, float64) { return R.LongestRunOfOnesInABlockProto(want, true) }},
				{"MonoBitFrequencyTestBytes", func() (float64, float64) { return R.MonoBitFrequencyTestBytes(data) }, func() (float64, float64) { return R.MonoBitFrequencyTest(want) }},
				{"PokerTestBytes8", func() (float64, float64) { return R.PokerTestBytes(data, 8) }, func() (float64, float64) { return R.PokerProto(want, 8) }},
				{"AutocorrelationTestBytes", func() (float64, float64) { return R.AutocorrelationTestBytes(data, 16) }, func() (float64, float64) { return R.AutocorrelationProto(want, 16) }},
				{"CumulativeTestBytes", func() (float64, float64) { return R.CumulativeTestBytes(data, false) }, func() (float64, float64) { return R.CumulativeTest(want, false) }},
				{"FrequencyWithinBlockTestBytes", func() (float64, float64) { return R.FrequencyWithinBlockTestBytes(data, 10000) }, func() (float64, float64) { return R.FrequencyWithinBlockProto(want, 10000) }},
			} {
				var p1, q1, p2, q2 float64
				if p, m := guard(func() { p1, q1 = pr.a(); p2, q2 = pr.b() }); p {
					c.Violation(fmt.Sprintf("%s:%dB:GOMAXPROCS=%d:panic", pr.name, nb, gm), m, "b2bit", nb)
					continue
				}
				c.Count("entry_point_comparisons", 1)
				c.Eval(ev.HashStr(fmt.Sprintf("gomaxprocs|%d|%d|%s", gm, nb, pr.name)), true)
				if !same2(p1, q1, p2, q2) {
					c.Violation(fmt.Sprintf("%s:%dB:GOMAXPROCS=%d", pr.name, nb, gm), fmt.Sprintf("%s gives (%v,%v), the bit entry point on the expansion (%v,%v), after GOMAXPROCS was changed from %d to %d inside the process", pr.name, p1, q1, p2, q2, orig, gm), "b2bit", nb)
				}
			}
		}
		runtime.GOMAXPROCS(orig)
		c.Count("in_process_GOMAXPROCS_changes", 4)
	}
	// registry unchanged by everything above
	if len(R.TestMethodArr) != len(before) {
		c.Violation("registry:length", "registry length changed", "registry", nil)
	} else {
		for i := range before {
			if before[i].Name != R.TestMethodArr[i].Name {
				c.Violation("registry:entry", fmt.Sprintf("registry entry %d changed", i), "registry", nil)
			}
		}
	}
}

func init() {
	replayers["single"] = func(raw json.RawMessage) (bool, string) {
		var cs singleCase
		if err := json.Unmarshal(raw, &cs); err != nil {
			return false, err.Error()
		}
		_, bad, msg := evalSingle(cs)
		return bad, msg
	}
	replayers["entrypoints"] = func(raw json.RawMessage) (bool, string) {
		var cs epCase
		if err := json.Unmarshal(raw, &cs); err != nil {
			return false, err.Error()
		}
		bad, _ := evalEntryPoints(gen.Pack(cs.Seq.Bits()), nil)
		return len(bad) > 0, fmt.Sprint(bad)
	}
}

var _ = io.EOF
var _ = bytes.Equal
