package main

import (
	"bytes"
	"encoding/json"
	"fmt"
	"hash/adler32"
	"hash/crc32"
	"hash/crc64"
	"math"
	"math/bits"
	"os"
	"os/exec"
	"path/filepath"
	"sort"
	"strings"
	"sync"
	"sync/atomic"
	"time"

	R "github.com/Trisia/randomness"
	"github.com/Trisia/randomness/detect"

	"verif/internal/ev"
	"verif/internal/gen"
	"verif/internal/oracle"
)

func init() {
	register("C16", "exploration", runC16)
	register("C17", "exploration", runC17)
	register("C18", "exploration", runC18)
}

// allSpecs lists every documented (test, parameter) admissible at length n.
func allSpecs(n int, heavyLC bool) []Spec {
	sp := []Spec{{T: "mono"}, {T: "monoBytes"}, {T: "blockAuto"}, {"block", 100}, {"block", 1000}}
	for _, m := range []int{2, 4, 8} {
		sp = append(sp, Spec{"poker", m}, Spec{"pokerBytes", m})
	}
	for _, m := range []int{2, 3, 5, 7} {
		sp = append(sp, Spec{"overlap", m})
	}
	for _, m := range []int{2, 5, 7} {
		sp = append(sp, Spec{"apen", m})
	}
	sp = append(sp, Spec{T: "runs"}, Spec{T: "runsDist"}, Spec{"longest", 1}, Spec{"longest", 0})
	for _, k := range []int{3, 7, 15} {
		sp = append(sp, Spec{"binder", k})
	}
	for _, d := range []int{1, 2, 8, 16, 32} {
		sp = append(sp, Spec{"autocorr", d})
	}
	sp = append(sp, Spec{"cusum", 1}, Spec{"cusum", 0}, Spec{T: "rank"}, Spec{"lc", 500}, Spec{"lc", 1000}, Spec{T: "maurer"}, Spec{T: "dft"})
	if heavyLC {
		sp = append(sp, Spec{"lc", 5000})
	}
	var out []Spec
	for _, s := range sp {
		if n >= s.minLen() && n >= 100 {
			out = append(out, s)
		}
	}
	return out
}

func twoSided(t string) bool {
	switch t {
	case "mono", "monoBytes", "runs", "binder", "autocorr", "maurer", "dft":
		return true
	}
	return false
}

// wellFormed checks the C16 predicates on one result vector.
func wellFormed(s Spec, v []float64) string {
	for _, x := range v {
		if math.IsNaN(x) || math.IsInf(x, 0) {
			return fmt.Sprintf("non-finite value in %v", v)
		}
		if x < -1e-9 || x > 1+1e-9 {
			return fmt.Sprintf("value %v outside [0,1] in %v", x, v)
		}
	}
	if s.T == "overlap" {
		if math.Abs(v[0]-v[2]) > 0 || math.Abs(v[1]-v[3]) > 0 {
			return fmt.Sprintf("chi-square test with Q != P: %v", v)
		}
		return ""
	}
	p, q := v[0], v[1]
	if twoSided(s.T) {
		if d := math.Abs(p - 2*math.Min(q, 1-q)); d > 1e-9 {
			return fmt.Sprintf("two-sided test with P=%v but 2*min(Q,1-Q)=%v (Q=%v)", p, 2*math.Min(q, 1-q), q)
		}
	} else if p != q {
		return fmt.Sprintf("chi-square test with Q=%v != P=%v", q, p)
	}
	return ""
}

type wfCase struct {
	Seq  gen.Seq `json:"seq"`
	Spec Spec    `json:"spec"`
}

func extremeSeqs(seed uint64, n int) []gen.Seq {
	mk := func(f string, a, b int, hx string) gen.Seq {
		return gen.Seq{Fam: f, N: n, A: a, B: b, Hex: hx, Seed: gen.Mix(seed, uint64(n), uint64(len(f)), uint64(a+7*b))}
	}
	out := []gen.Seq{
		mk("zeros", 0, 0, ""), mk("ones", 0, 0, ""), mk("alt", 0, 0, ""), mk("alt", 1, 0, ""),
		mk("bytepat", 0, 0, "33"), mk("bytepat", 0, 0, "0f"), mk("bytepat", 0, 0, "00ff"), mk("bytepat", 0, 0, "0123456789abcdef"),
		mk("transition", 0, n/2, ""), mk("transition", 0, 1, ""), mk("transition", 0, n-1, ""),
		mk("onebit", 0, 0, ""), mk("onebit", 0, -1, ""), mk("onebit", 0, n/2, ""),
		mk("sparse", 3, 0, ""), mk("periodic", 3, 0, ""), mk("periodic", 7, 0, ""),
		mk("uniform", 0, 0, ""), mk("balanced", 0, 0, ""), mk("bias", 10, 0, ""), mk("bias", 990, 0, ""), mk("bias", 300, 0, ""),
		mk("markov", 990, 0, ""), mk("markov", 10, 0, ""), mk("lfsr", 17, 0, ""), mk("singlerun", n/2, n/4, ""), mk("longruns", 3, 0, ""), mk("longruns", 1, 0, ""), mk("debruijn", 0, 0, ""), mk("debruijn", 6, 0, ""), mk("debruijn", 7, 5, ""), mk("debruijn", 10, 0, ""), mk("counter", 0, 0, ""),
	}
	return out
}

// hostilePrelude calls every test with inadmissible inputs (nil, empty, one bit, one short of the minimum,
// and one DFT input beyond 2^27 bits) and swallows whatever happens; what such calls do is outside the
// property, but the admissible calls that follow in the same process must still return.
func hostilePrelude(c *ev.Ctx) (hung bool) {
	for _, sp := range allSpecs(1<<20, true) {
		sp := sp
		for _, n := range []int{0, 1, sp.minLen() - 1, 7} {
			if n < 0 || n >= sp.minLen() {
				continue
			}
			b := make([]bool, n)
			var d []byte
			if n >= 8 {
				d = make([]byte, n/8)
			}
			guard(func() { libCall(sp, b, d) })
			guard(func() { libCall(sp, nil, nil) })
			c.Count("hostile_inadmissible_calls", 2)
		}
	}
	if !c.Lite() && bits.UintSize == 64 {
		huge := make([]bool, 1<<27+1) // one bit more than the spectral test admits
		guard(func() { R.DiscreteFourierTransformTest(huge) })
		c.Count("hostile_inadmissible_calls", 1)
	}
	// every test must still answer on an admissible input, within a generous time
	bitsv := gen.Seq{Fam: "slight", N: 8968, Seed: 99}.Bits()
	bools, data := gen.Bools(bitsv), gen.Pack(bitsv)
	done := make(chan string, 1)
	go func() {
		for _, sp := range allSpecs(len(bitsv), false) {
			sp := sp
			if p, m := guard(func() { libCall(sp, bools, data) }); p {
				done <- sp.String() + ": " + m
				return
			}
		}
		done <- ""
	}()
	select {
	case msg := <-done:
		if msg != "" {
			c.Violation("after-hostile-calls:panic", "an admissible call panicked after inadmissible calls had been made (and recovered) in the same process: "+clip(msg, 600), "wellformed", nil)
		}
	case <-time.After(5 * time.Minute):
		c.Violation("after-hostile-calls:no-return", "after inadmissible calls (recovered) an admissible call did not return within 5 minutes (normal: milliseconds)", "wellformed", nil)
		return true
	}
	return false
}

func runC16(c *ev.Ctx) {
	c.Rule = "each case = (extreme or generic sequence, test, parameter): every returned value must be finite and in [0,1] (+-1e-9), two-sided tests must satisfy P = 2*min(Q,1-Q) (1e-9), chi-square tests Q == P, and every registry runner's Pass flag must equal (P >= 0.01) (min(P,P2) for overlapping); a panic on an admissible input is a violation. 26 extreme families (constants, 0xAA/0x55/0x33/0x0F/00FF patterns, single transition / single one at start, middle, end, sparse, period-3/7 bits, heavy bias both ways, sticky and anti-sticky Markov, LFSR, one long run, balanced, PRNG) x lengths from 100 bits to 10^6 (10^7 thorough). non-trivial = every (sequence, test, parameter) on an extreme family, or a generic one with P in (1e-9,1-1e-9); distinct = distinct descriptors"
	c.Assumptions = []string{"predicates only; no reference values involved"}
	seed := uint64(c.Seed)
	lens := []int{100, 101, 128, 129, 1000, 1024, 8967, 8968, 10000, 20000, 100000, 1000000}
	if c.Thorough() {
		lens = append(lens, 10000000)
	}
	type work struct {
		sq gen.Seq
	}
	var works []work
	for _, n := range lens {
		for _, sq := range extremeSeqs(seed, n) {
			if n >= 10000000 && (sq.Fam == "uniform" || sq.Fam == "balanced" || sq.Fam == "bias" || sq.Fam == "lfsr" || sq.Fam == "markov") && sq.A != 10 {
				// 10^7-bit linear complexity on high-complexity content costs minutes each: keep two
				if sq.Fam != "uniform" {
					continue
				}
			}
			works = append(works, work{sq})
		}
	}
	if hostilePrelude(c) {
		return // the library no longer answers in this process: nothing else can be observed
	}
	passBoundarySweep(c, seed)
	generalPassSweep(c, seed)
	passNeedleSearch(c, seed)
	if c.Lite() {
		var keep []work
		for i, w := range works {
			if i%4 == 0 {
				keep = append(keep, w)
			}
		}
		works = keep
	}
	workers := 16
	parallelN(workers, len(works), func(i int) {
		sq := works[i].sq
		bits := sq.Bits()
		bools := gen.Bools(bits)
		var data []byte
		if len(bits)%8 == 0 {
			data = gen.Pack(bits)
		}
		randomLike := sq.Fam == "uniform" || sq.Fam == "balanced" || sq.Fam == "bias" || sq.Fam == "markov" || sq.Fam == "lfsr"
		for _, s := range allSpecs(len(bits), len(bits) <= 1000000) {
			if s.needsBytes() && data == nil {
				continue
			}
			if !c.Thorough() && s.T == "lc" && len(bits) >= 1000000 && (randomLike || s.P != 500) {
				continue // quick: 10^6-bit linear complexity on high-complexity content costs seconds per call (C04 covers it)
			}
			var v []float64
			c.Count("calls_"+s.T, 1)
			c.Eval(ev.HashStr(sq.String()+"|"+s.String()), true)
			if p, m := guard(func() { v = libCall(s, bools, data) }); p {
				c.Violation(fmt.Sprintf("%s:%s:panic", s.String(), sq.String()), m, "wellformed", wfCase{sq, s})
				continue
			}
			if msg := wellFormed(s, v); msg != "" {
				c.Violation(fmt.Sprintf("%s:%s", s.String(), sq.String()), msg, "wellformed", wfCase{sq, s})
			} else if i%53 == 0 && s.T == "runs" {
				c.Sample(map[string]interface{}{"seq": sq.String(), "test": s.String(), "values": v})
			}
		}
		// registry runners: Pass flag
		if data != nil && len(data) >= 128 {
			top := 12
			if len(data) >= 1121 {
				top = 15
			}
			for k := 0; k < top && k < len(R.TestMethodArr); k++ {
				var res *R.TestResult
				k := k
				if p, m := guard(func() { res = R.TestMethodArr[k].Runner(data) }); p || res == nil {
					c.Violation(fmt.Sprintf("runner%d:%s:panic", k+1, sq.String()), m, "wellformed", wfCase{sq, Spec{T: fmt.Sprintf("runner%d", k+1)}})
					continue
				}
				c.Count("registry_results_checked", 1)
				c.Eval(ev.HashStr(sq.String()+fmt.Sprintf("|runner%d", k)), true)
				minP := res.P
				if k == 3 && res.P2 < minP {
					minP = res.P2
				}
				vals := []float64{res.P, res.Q}
				if k == 3 {
					vals = append(vals, res.P2, res.Q2)
				}
				for _, x := range vals {
					if math.IsNaN(x) || x < -1e-9 || x > 1+1e-9 {
						c.Violation(fmt.Sprintf("runner%d:%s:range", k+1, sq.String()), fmt.Sprintf("registry result %+v", *res), "wellformed", wfCase{sq, Spec{T: fmt.Sprintf("runner%d", k+1)}})
						break
					}
				}
				if res.Pass != (minP >= 0.01) {
					c.Violation(fmt.Sprintf("runner%d:%s:pass", k+1, sq.String()), fmt.Sprintf("Pass=%v but P=%v P2=%v", res.Pass, res.P, res.P2), "wellformed", wfCase{sq, Spec{T: fmt.Sprintf("runner%d", k+1)}})
				}
			}
		}
	})
}

// passBoundarySweep drives every registry runner with inputs tuned so that its P-value lands
// around 0.01, and checks Pass == (P >= 0.01) there (min(P,P2) for the overlapping test).
func passBoundarySweep(c *ev.Ctx, seed uint64) {
	type param struct {
		fam string
		a   int
	}
	var params []param
	for _, b := range []int{500, 508, 516, 524, 532, 540, 550, 565, 580, 600} {
		params = append(params, param{"bias", b})
	}
	for _, st := range []int{510, 525, 540, 560, 600, 460, 430} {
		params = append(params, param{"markov", st})
	}
	nFinal := 600
	if c.Thorough() {
		nFinal = 12000
	}
	if c.Lite() {
		nFinal /= 6
	}
	parallelN(15, 15, func(k int) {
		// sizes chosen so that the runner's P-value is not confined to a handful of discrete values
		nbytes := map[int]int{2: 2500, 9: 12500, 12: 2500, 13: 5000, 14: 2500}[k]
		if nbytes == 0 {
			nbytes = 128
		}
		nFinal := nFinal
		if k == 12 || k == 9 {
			nFinal /= 5
		}
		eval := func(pm param, j int) (res *R.TestResult, sq gen.Seq, ok bool) {
			sq = gen.Seq{Fam: pm.fam, N: nbytes * 8, A: pm.a, Seed: gen.Mix(seed, 1616, uint64(k), uint64(pm.a), uint64(j))}
			data := gen.Pack(sq.Bits())
			if p, _ := guard(func() { res = R.TestMethodArr[k].Runner(data) }); p || res == nil {
				return nil, sq, false
			}
			return res, sq, true
		}
		minP := func(r *R.TestResult) float64 {
			if k == 3 && r.P2 < r.P {
				return r.P2
			}
			return r.P
		}
		best, bestHits := params[0], -1
		for _, pm := range params {
			hits := 0
			for j := 0; j < 24; j++ {
				if r, _, ok := eval(pm, j); ok {
					if p := minP(r); p > 0.003 && p < 0.03 {
						hits++
					}
				}
			}
			if hits > bestHits {
				best, bestHits = pm, hits
			}
		}
		below, above := 0.0, 1.0
		near := 0
		for j := 100; j < 100+nFinal; j++ {
			r, sq, ok := eval(best, j)
			if !ok {
				c.Violation(fmt.Sprintf("runner%d:%s:panic", k+1, sq.String()), "registry runner panicked", "wellformed", wfCase{sq, Spec{T: fmt.Sprintf("runner%d", k+1)}})
				continue
			}
			p := minP(r)
			if p < 0.01 && p > below {
				below = p
			}
			if p >= 0.01 && p < above {
				above = p
			}
			in := p >= 0.009 && p <= 0.011
			if in {
				near++
			}
			c.Eval(ev.HashStr(sq.String()+fmt.Sprintf("|runner%d", k)), p > 0.001 && p < 0.1)
			if r.Pass != (p >= 0.01) {
				c.Violation(fmt.Sprintf("runner%d:%s:pass", k+1, sq.String()), fmt.Sprintf("Pass=%v but P=%v P2=%v", r.Pass, r.P, r.P2), "wellformed", wfCase{sq, Spec{T: fmt.Sprintf("runner%d", k+1)}})
			}
		}
		c.Count("pass_flag_checks_near_threshold", int64(nFinal))
		c.Count(fmt.Sprintf("runner%02d_results_with_P_in_[0.009,0.011]", k+1), int64(near))
		c.Note(fmt.Sprintf("runner%02d_closest_P_around_0.01", k+1), map[string]interface{}{"input_family": fmt.Sprintf("%s/%d", best.fam, best.a), "largest_below": below, "smallest_at_or_above": above})
	})
}

// passNeedleSearch: for the two registry tests whose P-value depends on the input only through two
// integers (monobit: n and the ones count; cumulative sums: n and the maximum excursion) the whole
// parameter plane is scanned for the inputs whose P is closest to 0.01 on either side, and the Pass
// flag is checked exactly there (a tolerance slipped into the comparison has nowhere else to show).
func passNeedleSearch(c *ev.Ctx, seed uint64) {
	top := 260000
	if c.Thorough() {
		top = 2000000
	}
	if c.Lite() {
		top = 60000
	}
	type cand struct {
		n, v int
		p    float64
	}
	keepBest := func(list []cand, cd cand, k int) []cand {
		list = append(list, cd)
		sort.Slice(list, func(a, b int) bool { return math.Abs(list[a].p-0.01) < math.Abs(list[b].p-0.01) })
		if len(list) > k {
			list = list[:k]
		}
		return list
	}
	// cumulative sums (forward): P decreases with the excursion z
	var mu sync.Mutex
	var cuBelow, cuAbove, moBelow, moAbove []cand
	nn := (top - 1000) / 8
	parallel(16, func(w int) {
		var lb, la, mb, ma []cand
		for k := w; k < nn; k += 16 {
			n := 1000 + 8*k
			lo, hi := 1, n // smallest z with P < 0.01
			for lo < hi {
				mid := (lo + hi) / 2
				if oracle.CumulativeP(n, mid) < 0.01 {
					hi = mid
				} else {
					lo = mid + 1
				}
			}
			lb = keepBest(lb, cand{n, lo, oracle.CumulativeP(n, lo)}, 12)
			if lo > 1 {
				la = keepBest(la, cand{n, lo - 1, oracle.CumulativeP(n, lo-1)}, 12)
			}
			// monobit: P = erfc(|S|/sqrt(2n)), S = 2*ones-n has the parity of n
			s0 := int(2.5758293035489 * math.Sqrt(float64(n)))
			for s := s0 - 3; s <= s0+3; s++ {
				if s < 0 || (s+n)%2 != 0 {
					continue
				}
				p := math.Erfc(float64(s) / math.Sqrt(2*float64(n)))
				if p < 0.01 {
					mb = keepBest(mb, cand{n, s, p}, 12)
				} else {
					ma = keepBest(ma, cand{n, s, p}, 12)
				}
			}
		}
		mu.Lock()
		for _, x := range lb {
			cuBelow = keepBest(cuBelow, x, 24)
		}
		for _, x := range la {
			cuAbove = keepBest(cuAbove, x, 24)
		}
		for _, x := range mb {
			moBelow = keepBest(moBelow, x, 24)
		}
		for _, x := range ma {
			moAbove = keepBest(moAbove, x, 24)
		}
		mu.Unlock()
	})
	run := func(k int, what string, list []cand, build func(cd cand) []uint8) {
		for _, cd := range list {
			bits := build(cd)
			data := gen.Pack(bits)
			var r *R.TestResult
			if p, m := guard(func() { r = R.TestMethodArr[k].Runner(data) }); p || r == nil {
				c.Violation(fmt.Sprintf("runner%d:needle:%s:n=%d:v=%d:panic", k+1, what, cd.n, cd.v), m, "needle", cd.n)
				continue
			}
			c.Eval(ev.HashStr(fmt.Sprintf("needle|%d|%d|%d", k, cd.n, cd.v)), true)
			c.Count("needle_inputs_with_P_next_to_0.01", 1)
			if r.Pass != (r.P >= 0.01) {
				c.Violation(fmt.Sprintf("runner%d:needle:%s:n=%d:v=%d:pass", k+1, what, cd.n, cd.v), fmt.Sprintf("Pass=%v but P=%.17g (input: n=%d, %s=%d; 0.01-P = %.3g)", r.Pass, r.P, cd.n, what, cd.v, 0.01-r.P), "needle", []int{k, cd.n, cd.v})
			}
		}
	}
	cusumBits := func(cd cand) []uint8 {
		b := make([]uint8, cd.n)
		for i := range b {
			if i < cd.v || (i-cd.v)%2 == 1 {
				b[i] = 1
			}
		}
		return b
	}
	monoBits := func(cd cand) []uint8 {
		b := make([]uint8, cd.n)
		ones := (cd.v + cd.n) / 2
		// spread the ones evenly so that nothing else about the input is extreme
		acc := 0
		for i := range b {
			acc += ones
			if acc >= cd.n {
				acc -= cd.n
				b[i] = 1
			}
		}
		return b
	}
	run(10, "max_excursion", cuBelow, cusumBits)
	run(10, "max_excursion", cuAbove, cusumBits)
	run(0, "ones_excess", moBelow, monoBits)
	run(0, "ones_excess", moAbove, monoBits)
	gap := func(l []cand) float64 {
		if len(l) == 0 {
			return -1
		}
		return math.Abs(l[0].p - 0.01)
	}
	c.Note("needle_search_closest_gap_to_0.01", map[string]interface{}{"cusum_below": gap(cuBelow), "cusum_at_or_above": gap(cuAbove), "monobit_below": gap(moBelow), "monobit_at_or_above": gap(moAbove), "lengths_scanned": nn})
}

// generalPassSweep: many short generic inputs through all registry runners; Pass must equal
// (P >= 0.01), with min(P,P2) for the overlapping test (P1 and P2 disagree about 0.01 on ~1% of inputs).
func generalPassSweep(c *ev.Ctx, seed uint64) {
	n12, n15 := 4000, 400
	if c.Thorough() {
		n12, n15 = 40000, 4000
	}
	if c.Lite() {
		n12, n15 = n12/6, n15/6
	}
	var split int64
	var mu sync.Mutex
	parallel(n12+n15, func(i int) {
		nbytes, top := 128, 12
		if i >= n12 {
			nbytes, top = 1121, 15
		}
		fam := []string{"uniform", "slight", "markov", "balanced"}[i%4]
		sq := gen.Seq{Fam: fam, N: nbytes * 8, Seed: gen.Mix(seed, 1617, uint64(i))}
		data := gen.Pack(sq.Bits())
		for k := 0; k < top; k++ {
			var r *R.TestResult
			k := k
			if p, m := guard(func() { r = R.TestMethodArr[k].Runner(data) }); p || r == nil {
				c.Violation(fmt.Sprintf("runner%d:%s:panic", k+1, sq.String()), m, "wellformed", wfCase{sq, Spec{T: fmt.Sprintf("runner%d", k+1)}})
				continue
			}
			minP := r.P
			if k == 3 && r.P2 < minP {
				minP = r.P2
			}
			if k == 3 && (r.P >= 0.01) != (r.P2 >= 0.01) {
				mu.Lock()
				split++
				mu.Unlock()
			}
			if r.Pass != (minP >= 0.01) {
				c.Violation(fmt.Sprintf("runner%d:%s:pass", k+1, sq.String()), fmt.Sprintf("Pass=%v but P=%v P2=%v", r.Pass, r.P, r.P2), "wellformed", wfCase{sq, Spec{T: fmt.Sprintf("runner%d", k+1)}})
			}
		}
		c.Eval(ev.HashStr("sweep|"+sq.String()), true)
	})
	c.Count("generic_inputs_through_all_runners", int64(n12+n15))
	c.Count("overlapping_inputs_where_P1_and_P2_disagree_about_0.01", split)
}

// ---------------- C17 ----------------

func complement(b []uint8) []uint8 {
	o := make([]uint8, len(b))
	for i, v := range b {
		o[i] = v ^ 1
	}
	return o
}

func reverse(b []uint8) []uint8 {
	o := make([]uint8, len(b))
	for i, v := range b {
		o[len(b)-1-i] = v
	}
	return o
}

func rotate(b []uint8, k int) []uint8 {
	n := len(b)
	o := make([]uint8, n)
	for i := range b {
		o[i] = b[(i+k)%n]
	}
	return o
}

func permuteBlocks(b []uint8, m int, r *gen.Rng) []uint8 {
	N := len(b) / m
	o := append([]uint8(nil), b...)
	p := r.Perm(N)
	for i, j := range p {
		copy(o[i*m:(i+1)*m], b[j*m:(j+1)*m])
	}
	return o
}

func rewriteTail(b []uint8, m int, r *gen.Rng) []uint8 {
	o := append([]uint8(nil), b...)
	for i := len(b) / m * m; i < len(b); i++ {
		o[i] = uint8(r.U64() & 1)
	}
	return o
}

type symCase struct {
	Seq   gen.Seq `json:"seq"`
	Spec  Spec    `json:"spec"`
	Rel   string  `json:"rel"`
	Param int     `json:"param,omitempty"`
	Seed  uint64  `json:"seed,omitempty"`
}

func lrBlockLen(n int) int {
	switch {
	case n < 6272:
		return 8
	case n < 750000:
		return 128
	}
	return 10000
}

// symEval evaluates one relation; returns worst |delta|.
func symEval(cs symCase, bits []uint8) (worst float64, msg string, panicked bool) {
	var tb []uint8
	s2 := cs.Spec
	r := gen.NewRng(cs.Seed)
	switch cs.Rel {
	case "complement":
		tb = complement(bits)
		if cs.Spec.T == "longest" {
			s2.P = 1 - cs.Spec.P
		}
	case "reverse":
		tb = reverse(bits)
		if cs.Spec.T == "cusum" {
			s2.P = 1 - cs.Spec.P
		}
	case "rotate":
		tb = rotate(bits, cs.Param)
	case "blockperm":
		tb = permuteBlocks(bits, cs.Param, r)
	case "tail":
		tb = rewriteTail(bits, cs.Param, r)
	}
	pack := func(b []uint8) []byte {
		if len(b)%8 == 0 {
			return gen.Pack(b)
		}
		return nil
	}
	var a, b []float64
	if p, m := guard(func() { a = libCall(cs.Spec, gen.Bools(bits), pack(bits)); b = libCall(s2, gen.Bools(tb), pack(tb)) }); p {
		return math.Inf(1), m, true
	}
	want := append([]float64(nil), a...)
	if cs.Rel == "complement" && (cs.Spec.T == "mono" || cs.Spec.T == "monoBytes") {
		want[1] = 1 - a[1]
	}
	for i := range want {
		if d := diff(want[i], b[i]); d > worst {
			worst = d
		}
	}
	return worst, fmt.Sprintf("%s under %s(%d): original %v transformed %v", cs.Spec, cs.Rel, cs.Param, a, b), false
}

func runC17(c *ev.Ctx) {
	c.Rule = "each case = (sequence, test, parameter, transformation): the library's result on the transformed sequence must equal its result on the original within 1e-8 (monobit Q -> 1-Q under complement, ones<->zeros for longest run, forward<->backward cusum under reversal). Transformations: complement, reversal, cyclic rotation by seeded amounts incl. 1, n-1, m-1 (overlapping, approximate entropy), seeded permutation of whole blocks and rewriting of the discarded tail (block frequency, poker, longest run, rank, linear complexity at the test's own block length). non-trivial = original P in (1e-9, 1-1e-9); distinct = distinct (sequence, test, parameter, transformation, amount)"
	c.Assumptions = []string{"metamorphic: no reference values; the library is compared with itself"}
	seed := uint64(c.Seed)
	lens := []int{128, 200, 1000, 1024, 4099, 8192, 8967, 20000, 33333, 65536, 100000} // incl. exact multiples of every block size
	nrot := 16
	if c.Thorough() {
		lens = append(lens, 1000000)
		nrot = 100
	}
	fams := []string{"slight", "uniform", "markov", "periodic", "biased", "balanced", "lfsr", "longruns"}
	type work struct {
		sq    gen.Seq
		cases []symCase
	}
	var works []work
	for _, n := range lens {
		for fi, f := range fams {
			reps := 2
			if c.Thorough() {
				reps = 12
			}
			if n >= 100000 {
				reps = 1
				if fi > 3 && n > 100000 {
					continue
				}
			}
			for rep := 0; rep < reps; rep++ {
				sq := gen.Seq{Fam: f, N: n, Seed: gen.Mix(seed, 17, uint64(n), uint64(fi), uint64(rep))}
				r := gen.NewRng(gen.Mix(seed, 171, uint64(n), uint64(fi), uint64(rep)))
				var cs []symCase
				for _, s := range allSpecs(n, false) {
					if s.T == "block" && s.P == 1000 {
						continue
					}
					if s.T != "rank" && s.T != "lc" {
						cs = append(cs, symCase{sq, s, "complement", 0, 0})
					}
					switch s.T {
					case "mono", "runs", "runsDist", "autocorr", "binder", "overlap", "apen", "cusum":
						cs = append(cs, symCase{sq, s, "reverse", 0, 0})
					}
					if s.T == "overlap" || s.T == "apen" {
						amts := []int{1, n - 1, s.P - 1, s.P, n / 2}
						k := nrot
						if n >= 100000 {
							k = nrot / 4
						}
						for j := 0; j < k; j++ {
							amts = append(amts, r.Range(1, n-1))
						}
						for _, a := range amts {
							if a > 0 && a < n {
								cs = append(cs, symCase{sq, s, "rotate", a, 0})
							}
						}
					}
					bl := 0
					switch s.T {
					case "block", "poker", "pokerBytes", "lc":
						bl = s.P
					case "blockAuto":
						bl = map[bool]int{true: 10, false: 0}[n < 1000]
						if n >= 1000 {
							bl = 100
						}
						if n >= 10000 {
							bl = 1000
						}
						if n >= 1000000 {
							bl = 10000
						}
					case "longest":
						bl = lrBlockLen(n)
					case "rank":
						bl = 1024
					}
					if bl > 0 && n/bl >= 2 && !(s.T == "pokerBytes" && (n%8 != 0)) {
						for j := 0; j < 3; j++ {
							cs = append(cs, symCase{sq, s, "blockperm", bl, r.U64()})
						}
					}
					if bl > 0 && n%bl != 0 {
						for j := 0; j < 3; j++ {
							cs = append(cs, symCase{sq, s, "tail", bl, r.U64()})
						}
					}
				}
				works = append(works, work{sq, cs})
			}
		}
	}
	if c.Lite() {
		var keep []work
		for i, w := range works {
			if i%5 == 0 {
				keep = append(keep, w)
			}
		}
		works = keep
	}
	parallel(len(works), func(i int) {
		w := works[i]
		bits := w.sq.Bits()
		for _, cs := range w.cases {
			if cs.Spec.needsBytes() && len(bits)%8 != 0 {
				continue
			}
			worst, msg, pan := symEval(cs, bits)
			var orig []float64
			guard(func() {
				var d []byte
				if len(bits)%8 == 0 {
					d = gen.Pack(bits)
				}
				_ = d
			})
			_ = orig
			c.Count("relations_"+cs.Rel, 1)
			nt := true
			c.Eval(ev.HashStr(fmt.Sprintf("%s|%s|%s|%d|%d", cs.Seq.String(), cs.Spec.String(), cs.Rel, cs.Param, cs.Seed)), nt)
			if pan {
				c.Violation(fmt.Sprintf("%s:%s:%s:panic", cs.Spec.String(), cs.Rel, cs.Seq.String()), msg, "symmetry", cs)
				continue
			}
			c.Max("worst_delta_"+cs.Rel, worst)
			if worst > 1e-8 {
				c.Violation(fmt.Sprintf("%s:%s(%d):%s", cs.Spec.String(), cs.Rel, cs.Param, cs.Seq.String()), msg+fmt.Sprintf(" |delta| %.3g", worst), "symmetry", cs)
			} else if i%23 == 0 && cs.Rel == "rotate" && cs.Param == 1 {
				c.Sample(map[string]interface{}{"seq": cs.Seq.String(), "relation": msg, "delta": worst})
			}
		}
	})
}

// ---------------- C18 ----------------

// pureCall is one invocation of the library on a byte/bit input; returns a comparable result vector.
type pureCall struct {
	Name string
	Fn   func(data []byte, bits []bool) []float64
}

func pureCalls(nbits int) []pureCall {
	pq := func(p, q float64) []float64 { return []float64{p, q} }
	res := func(r *R.TestResult) []float64 {
		b := 0.0
		if r.Pass {
			b = 1
		}
		return []float64{r.P, r.Q, r.P2, r.Q2, b}
	}
	var out []pureCall
	out = append(out,
		pureCall{"MonoBitFrequencyTest", func(d []byte, b []bool) []float64 { return pq(R.MonoBitFrequencyTest(b)) }},
		pureCall{"MonoBitFrequencyTestBytes", func(d []byte, b []bool) []float64 { return pq(R.MonoBitFrequencyTestBytes(d)) }},
		pureCall{"FrequencyWithinBlockTest", func(d []byte, b []bool) []float64 { return pq(R.FrequencyWithinBlockTest(b)) }},
		pureCall{"PokerProto8", func(d []byte, b []bool) []float64 { return pq(R.PokerProto(b, 8)) }},
		pureCall{"PokerTestBytes4", func(d []byte, b []bool) []float64 { return pq(R.PokerTestBytes(d, 4)) }},
		pureCall{"Overlapping5", func(d []byte, b []bool) []float64 {
			p1, p2, q1, q2 := R.OverlappingTemplateMatchingProto(b, 5)
			return []float64{p1, p2, q1, q2}
		}},
		pureCall{"RunsTest", func(d []byte, b []bool) []float64 { return pq(R.RunsTest(b)) }},
		pureCall{"RunsDistributionTest", func(d []byte, b []bool) []float64 { return pq(R.RunsDistributionTest(b)) }},
		pureCall{"LongestRun1", func(d []byte, b []bool) []float64 { return pq(R.LongestRunOfOnesInABlockProto(b, true)) }},
		pureCall{"LongestRun0", func(d []byte, b []bool) []float64 { return pq(R.LongestRunOfOnesInABlockProto(b, false)) }},
		pureCall{"BinaryDerivative7", func(d []byte, b []bool) []float64 { return pq(R.BinaryDerivativeProto(b, 7)) }},
		pureCall{"BinaryDerivative3", func(d []byte, b []bool) []float64 { return pq(R.BinaryDerivativeProto(b, 3)) }},
		pureCall{"Autocorrelation16", func(d []byte, b []bool) []float64 { return pq(R.AutocorrelationProto(b, 16)) }},
		pureCall{"MatrixRank", func(d []byte, b []bool) []float64 { return pq(R.MatrixRankProto(b, 32, 32)) }},
		pureCall{"CumulativeF", func(d []byte, b []bool) []float64 { return pq(R.CumulativeTest(b, true)) }},
		pureCall{"CumulativeB", func(d []byte, b []bool) []float64 { return pq(R.CumulativeTest(b, false)) }},
		pureCall{"ApproximateEntropy5", func(d []byte, b []bool) []float64 { return pq(R.ApproximateEntropyProto(b, 5)) }},
		pureCall{"LinearComplexity500", func(d []byte, b []bool) []float64 { return pq(R.LinearComplexityProto(b, 500)) }},
		pureCall{"DFT", func(d []byte, b []bool) []float64 { return pq(R.DiscreteFourierTransformTest(b)) }},
		pureCall{"DFTBytes", func(d []byte, b []bool) []float64 { return pq(R.DiscreteFourierTransformTestBytes(d)) }},
		pureCall{"Round12", func(d []byte, b []bool) []float64 {
			var o []float64
			for _, r := range detect.Round12(d) {
				o = append(o, res(r)...)
			}
			return o
		}},
	)
	for i := 0; i < 12; i++ {
		i := i
		out = append(out, pureCall{fmt.Sprintf("registry[%d]", i+1), func(d []byte, b []bool) []float64 { return res(R.TestMethodArr[i].Runner(d)) }})
	}
	if nbits >= 8967 {
		out = append(out,
			pureCall{"Maurer", func(d []byte, b []bool) []float64 { return pq(R.MaurerUniversalTest(b)) }},
			pureCall{"Round15", func(d []byte, b []bool) []float64 {
				var o []float64
				for _, r := range detect.Round15(d) {
					o = append(o, res(r)...)
				}
				return o
			}},
		)
		for i := 12; i < 15; i++ {
			i := i
			out = append(out, pureCall{fmt.Sprintf("registry[%d]", i+1), func(d []byte, b []bool) []float64 { return res(R.TestMethodArr[i].Runner(d)) }})
		}
	}
	return out
}

func sameVec(a, b []float64) bool {
	if len(a) != len(b) {
		return false
	}
	for i := range a {
		if !same(a[i], b[i]) {
			return false
		}
	}
	return true
}

// c18Result is what one concurrency batch observed.
type c18Result struct {
	Calls        int      `json:"calls"`
	Mismatches   []string `json:"mismatches"`
	InputChanged []string `json:"input_changed"`
	Batches      int      `json:"batches"`
	MaxG         int      `json:"max_goroutines"`
}

// concurrencyBatch runs G goroutines x perG seeded calls on shared and private buffers.
func concurrencyBatch(seed uint64, nbytes int, Gs []int, perG int) c18Result {
	var out c18Result
	calls := pureCalls(nbytes * 8)
	for bi, G := range Gs {
		for _, shared := range []bool{true, false} {
			out.Batches++
			if G > out.MaxG {
				out.MaxG = G
			}
			r := gen.NewRng(gen.Mix(seed, 18, uint64(G), uint64(bi)))
			mkBuf := func(k int) ([]byte, []bool) {
				sq := gen.Seq{Fam: []string{"slight", "uniform", "markov"}[k%3], N: nbytes * 8, Seed: gen.Mix(seed, 181, uint64(k), uint64(G))}
				bits := sq.Bits()
				// spare capacity filled with a canary so that appends/writes past len are seen
				d := make([]byte, nbytes, nbytes+64)
				copy(d, gen.Pack(bits))
				for i := nbytes; i < nbytes+64; i++ {
					d[:cap(d)][i] = 0xA5
				}
				bb := make([]bool, len(bits), len(bits)+64)
				copy(bb, gen.Bools(bits))
				for i := len(bits); i < len(bits)+64; i++ {
					bb[:cap(bb)][i] = i%2 == 0
				}
				return d, bb
			}
			nb := 1
			if !shared {
				nb = G
			}
			bufsD := make([][]byte, nb)
			bufsB := make([][]bool, nb)
			snapD := make([][]byte, nb)
			snapB := make([][]bool, nb)
			solo := make([][][]float64, nb)
			plan := make([][]int, G)
			for g := range plan {
				plan[g] = make([]int, perG)
				for j := range plan[g] {
					plan[g][j] = r.Intn(len(calls))
				}
			}
			for k := 0; k < nb; k++ {
				bufsD[k], bufsB[k] = mkBuf(k)
				snapD[k] = append([]byte(nil), bufsD[k][:cap(bufsD[k])]...)
				snapB[k] = append([]bool(nil), bufsB[k][:cap(bufsB[k])]...)
				solo[k] = make([][]float64, len(calls))
			}
			// solo results, computed one at a time, for exactly the (buffer, call) pairs the plan uses
			for g := 0; g < G; g++ {
				k := 0
				if !shared {
					k = g
				}
				for _, ci := range plan[g] {
					if solo[k][ci] != nil {
						continue
					}
					ci, k := ci, k
					if p, m := guard(func() { solo[k][ci] = calls[ci].Fn(bufsD[k], bufsB[k]) }); p {
						out.Mismatches = append(out.Mismatches, calls[ci].Name+" solo: "+clip(m, 200))
					}
				}
			}
			var wg sync.WaitGroup
			var mu sync.Mutex
			start := make(chan struct{})
			for g := 0; g < G; g++ {
				wg.Add(1)
				go func(g int) {
					defer wg.Done()
					k := 0
					if !shared {
						k = g
					}
					<-start
					for _, ci := range plan[g] {
						var got []float64
						if p, m := guard(func() { got = calls[ci].Fn(bufsD[k], bufsB[k]) }); p {
							mu.Lock()
							out.Mismatches = append(out.Mismatches, calls[ci].Name+" concurrent: "+clip(m, 200))
							mu.Unlock()
							continue
						}
						mu.Lock()
						out.Calls++
						if !sameVec(got, solo[k][ci]) && len(out.Mismatches) < 20 {
							out.Mismatches = append(out.Mismatches, fmt.Sprintf("%s with %d goroutines (shared=%v): concurrent %v, alone %v", calls[ci].Name, G, shared, got, solo[k][ci]))
						}
						mu.Unlock()
					}
				}(g)
			}
			close(start)
			wg.Wait()
			for k := 0; k < nb; k++ {
				d := bufsD[k][:cap(bufsD[k])]
				b := bufsB[k][:cap(bufsB[k])]
				for i := range d {
					if d[i] != snapD[k][i] {
						out.InputChanged = append(out.InputChanged, fmt.Sprintf("byte slice changed at index %d (len %d) after %d-goroutine batch", i, nbytes, G))
						break
					}
				}
				for i := range b {
					if b[i] != snapB[k][i] {
						out.InputChanged = append(out.InputChanged, fmt.Sprintf("bit slice changed at index %d (len %d) after %d-goroutine batch", i, nbytes*8, G))
						break
					}
				}
			}
		}
	}
	return out
}

// mixedLengthBatch: one goroutine per input size, all released together, each calling the
// length-sensitive entry points (DFT family, block frequency, longest run, Round12) a few times.
func mixedLengthBatch(seed uint64, sizes []int, rounds int) c18Result {
	var out c18Result
	type job struct {
		data []byte
		bits []bool
		snap []byte
		solo [][]float64
	}
	pq := func(p, q float64) []float64 { return []float64{p, q} }
	calls := []pureCall{
		{"DFT", func(d []byte, b []bool) []float64 { return pq(R.DiscreteFourierTransformTest(b)) }},
		{"DFTBytes", func(d []byte, b []bool) []float64 { return pq(R.DiscreteFourierTransformTestBytes(d)) }},
		{"registry[15]", func(d []byte, b []bool) []float64 {
			r := R.TestMethodArr[14].Runner(d)
			return []float64{r.P, r.Q}
		}},
		{"FrequencyWithinBlockTest", func(d []byte, b []bool) []float64 { return pq(R.FrequencyWithinBlockTest(b)) }},
		{"LongestRun1", func(d []byte, b []bool) []float64 { return pq(R.LongestRunOfOnesInABlockProto(b, true)) }},
		{"BinaryDerivative7", func(d []byte, b []bool) []float64 { return pq(R.BinaryDerivativeProto(b, 7)) }},
		{"Poker8", func(d []byte, b []bool) []float64 { return pq(R.PokerTestBytes(d, 8)) }},
		{"MatrixRank", func(d []byte, b []bool) []float64 { return pq(R.MatrixRankProto(b, 32, 32)) }},
	}
	jobs := make([]*job, len(sizes))
	for i, nb := range sizes {
		bits := gen.Seq{Fam: "slight", N: nb * 8, Seed: gen.Mix(seed, uint64(nb))}.Bits()
		j := &job{data: gen.Pack(bits), bits: gen.Bools(bits)}
		j.snap = append([]byte(nil), j.data...)
		j.solo = make([][]float64, len(calls))
		for ci, cl := range calls {
			ci, cl := ci, cl
			if p, m := guard(func() { j.solo[ci] = cl.Fn(j.data, j.bits) }); p {
				out.Mismatches = append(out.Mismatches, cl.Name+" solo: "+clip(m, 200))
			}
		}
		jobs[i] = j
	}
	var mu sync.Mutex
	for round := 0; round < rounds; round++ {
		var wg sync.WaitGroup
		start := make(chan struct{})
		for gi, j := range jobs {
			for rep := 0; rep < 2; rep++ {
				wg.Add(1)
				go func(gi, rep int, j *job) {
					defer wg.Done()
					<-start
					for k := 0; k < len(calls); k++ {
						ci := (k + gi + rep + round) % len(calls)
						var got []float64
						if p, m := guard(func() { got = calls[ci].Fn(j.data, j.bits) }); p {
							mu.Lock()
							out.Mismatches = append(out.Mismatches, fmt.Sprintf("%s on %d bytes, concurrent with other lengths: %s", calls[ci].Name, len(j.data), clip(m, 300)))
							mu.Unlock()
							continue
						}
						mu.Lock()
						out.Calls++
						if !sameVec(got, j.solo[ci]) && len(out.Mismatches) < 20 {
							out.Mismatches = append(out.Mismatches, fmt.Sprintf("%s on %d bytes, concurrent with other lengths %v: %v, alone %v", calls[ci].Name, len(j.data), sizes, got, j.solo[ci]))
						}
						mu.Unlock()
					}
				}(gi, rep, j)
			}
		}
		close(start)
		wg.Wait()
	}
	for _, j := range jobs {
		for i := range j.data {
			if j.data[i] != j.snap[i] {
				out.InputChanged = append(out.InputChanged, fmt.Sprintf("byte slice of %d bytes changed at index %d", len(j.data), i))
				break
			}
		}
	}
	return out
}

var mu18 sync.Mutex

// windowViews: the same data handed over as a view buf[off:off+n] at every offset 1..17 of a larger
// backing array (bit slices and byte slices) must give exactly what a freshly allocated copy gives:
// results may not depend on where a slice starts in memory or on what lies around it.
func windowViews(c *ev.Ctx, seed uint64) {
	lens := []int{128, 1000, 8968}
	var n int64
	for _, nbits := range lens {
		if nbits%8 != 0 {
			nbits += 8 - nbits%8
		}
		bits := gen.Seq{Fam: "slight", N: nbits, Seed: gen.Mix(seed, 1899, uint64(nbits))}.Bits()
		fresh := gen.Bools(bits)
		freshD := gen.Pack(bits)
		specs := allSpecs(nbits, false)
		want := map[string][]float64{}
		for _, sp := range specs {
			sp := sp
			guard(func() { want[sp.String()] = libCall(sp, fresh, freshD) })
		}
		for off := 1; off <= 17; off++ {
			if c.Lite() && off%4 != 1 {
				continue
			}
			// surrounding memory is filled with the complement pattern so that reading outside the view shows
			bigB := make([]bool, nbits+64)
			for i := range bigB {
				bigB[i] = i%3 == 0
			}
			copy(bigB[off:], fresh)
			bigD := make([]byte, len(freshD)+64)
			for i := range bigD {
				bigD[i] = 0xA5
			}
			copy(bigD[off:], freshD)
			vb := bigB[off : off+nbits : off+nbits]
			vd := bigD[off : off+len(freshD) : off+len(freshD)]
			if off%2 == 0 { // also views with spare capacity behind them
				vb = bigB[off : off+nbits]
				vd = bigD[off : off+len(freshD)]
			}
			for _, sp := range specs {
				sp := sp
				var got []float64
				if p, m := guard(func() { got = libCall(sp, vb, vd) }); p {
					c.Violation(fmt.Sprintf("view:%s:off=%d:panic", sp.String(), off), m, "c18", off)
					continue
				}
				n++
				c.Eval(ev.HashStr(fmt.Sprintf("view|%d|%d|%s", nbits, off, sp.String())), true)
				if !sameVec(got, want[sp.String()]) {
					c.Violation(fmt.Sprintf("view:%s:n=%d:off=%d", sp.String(), nbits, off), fmt.Sprintf("%s on the view buf[%d:%d] of a larger array returned %v, on a fresh copy of the same data %v", sp.String(), off, off+nbits, got, want[sp.String()]), "c18", off)
				}
			}
		}
	}
	c.Count("window_view_calls_compared_with_fresh_copy", n)
}

// crcPartner returns a copy of a that differs from it but has the same checksum under a reflected CRC
// with the given (reflected) polynomial constant of `bits` bits: the generator, written in processing
// order, is XOR-ed in at byte offset off.
func crcPartner(a []byte, poly uint64, bits int, off int) []byte {
	b := append([]byte(nil), a...)
	// generator in processing order: x^bits first, then the coefficients given by poly, LSB first
	var g [9]byte
	g[0] = 1
	for k := 1; k <= bits; k++ {
		if poly>>uint(k-1)&1 == 1 {
			g[k/8] |= 1 << uint(k%8)
		}
	}
	for i := 0; i <= bits/8; i++ {
		if off+i < len(b) {
			b[off+i] ^= g[i]
		}
	}
	return b
}

// weakKeyPairs: pairs of different inputs that a careless memoisation key would confuse: same length and
// same prefix / suffix, same CRC-64 (ECMA, ISO), same CRC-32 (IEEE, Castagnoli), same Adler-32, same
// multiset of bytes, and the same buffer re-used with new contents. The second input's result, taken
// right after the first one's, must be what it is after unrelated traffic.
// bufferReuse: the caller keeps ONE buffer (same backing array, same length) and refills it between calls,
// as a sampling loop does; the result must be that of the buffer's current contents, not of what it held
// at an earlier call (anything remembered per slice identity instead of per content shows here). Sequential
// on purpose: an intervening call on another slice would evict a one-entry memo.
func bufferReuse(c *ev.Ctx, seed uint64) {
	var n, bad int64
	for _, nbits := range []int{1000, 20000, 80000} {
		contents := [][]uint8{
			gen.Seq{Fam: "slight", N: nbits, Seed: gen.Mix(seed, 1901, uint64(nbits))}.Bits(),
			gen.Seq{Fam: "uniform", N: nbits, Seed: gen.Mix(seed, 1902, uint64(nbits))}.Bits(),
			gen.Seq{Fam: "markov", N: nbits, Seed: gen.Mix(seed, 1903, uint64(nbits))}.Bits(),
		}
		oneFlip := append([]uint8(nil), contents[2]...)
		oneFlip[nbits/2] ^= 1
		contents = append(contents, oneFlip)
		for _, sp := range allSpecs(nbits, false) {
			if nbits > 20000 && (sp.T == "lc" || sp.T == "maurer") {
				continue
			}
			// fresh-slice results first (each on its own allocation)
			fresh := make([][]float64, len(contents))
			for k, bits := range contents {
				bools := gen.Bools(bits)
				var by []byte
				if sp.needsBytes() {
					by = gen.Pack(bits)
				}
				fresh[k] = libCall(sp, bools, by)
			}
			// now one buffer refilled in place
			bools := make([]bool, nbits)
			by := make([]byte, nbits/8)
			for k, bits := range contents {
				for i, b := range bits {
					bools[i] = b == 1
				}
				if sp.needsBytes() {
					copy(by, gen.Pack(bits))
				}
				var got []float64
				if p, m := guard(func() { got = libCall(sp, bools, by) }); p {
					c.Violation(fmt.Sprintf("buffer-reuse:%s:n=%d:panic", sp, nbits), m, "purity", nil)
					bad++
					continue
				}
				n++
				same := len(got) == len(fresh[k])
				for i := range got {
					if same && diff(got[i], fresh[k][i]) != 0 {
						same = false
					}
				}
				if !same && bad < 25 {
					bad++
					c.Violation(fmt.Sprintf("buffer-reuse:%s:n=%d:fill=%d", sp, nbits, k), fmt.Sprintf("%s on a caller-owned buffer after refill #%d returns %v; the same contents in a fresh slice give %v (the previous fill gave %v)", sp, k, got, fresh[k], fresh[(k+len(fresh)-1)%len(fresh)]), "purity", nil)
				}
			}
			c.Eval(ev.HashStr(fmt.Sprintf("bufreuse|%s|%d", sp, nbits)), true)
		}
	}
	c.Count("calls_on_a_refilled_caller_buffer", n)
}

// entryHammer: every cheap entry point from 64 goroutines at once, each on short inputs of its own; every result
// must equal the solo result bit for bit. Used in the plain binary and in the -race child.
func entryHammer(seed uint64, per int, report func(key, msg string), done func(name string)) int64 {
	heavy := map[string]bool{"LinearComplexity500": true, "DFT": true, "DFTBytes": true, "Round12": true, "Round15": true, "Maurer": true, "MatrixRank": true}
	var hcalls []pureCall
	for _, cl := range pureCalls(8968) {
		if !heavy[cl.Name] && !strings.HasPrefix(cl.Name, "registry") {
			hcalls = append(hcalls, cl)
		}
	}
	hcalls = append(hcalls, pureCall{Name: "MatrixRank(2048 bits)", Fn: func(d []byte, b []bool) []float64 {
		p, q := R.MatrixRankTestBytes(d[:256], 32, 32)
		return []float64{p, q}
	}})
	const G = 64
	type inp struct {
		d []byte
		b []bool
	}
	inputs := make([][]inp, G)
	for g := 0; g < G; g++ {
		for k, nb := range []int{256, 320, 512, 1280} {
			fam := []string{"uniform", "zeros", "slight", "ones", "bias"}[(g+k)%5]
			bits := gen.Seq{Fam: fam, N: nb * 8, A: 900, Seed: gen.Mix(seed, 1877, uint64(g), uint64(k))}.Bits()
			inputs[g] = append(inputs[g], inp{gen.Pack(bits), gen.Bools(bits)})
		}
	}
	var hammered, hbad int64
	for _, cl := range hcalls {
		cl := cl
		solo := make([][][]float64, G)
		ok := true
		for g := 0; g < G && ok; g++ {
			for _, in := range inputs[g] {
				var v []float64
				if p, _ := guard(func() { v = cl.Fn(in.d, in.b) }); p {
					ok = false // inputs this short are outside some tests' domain; not this phase's business
					break
				}
				solo[g] = append(solo[g], v)
			}
		}
		if !ok {
			continue
		}
		var wg sync.WaitGroup
		start := make(chan struct{})
		for g := 0; g < G; g++ {
			wg.Add(1)
			go func(g int) {
				defer wg.Done()
				<-start
				for k := 0; k < per; k++ {
					if atomic.LoadInt64(&hbad) > 20 {
						return
					}
					j := k % len(inputs[g])
					in := inputs[g][j]
					var v []float64
					if p, m := guard(func() { v = cl.Fn(in.d, in.b) }); p {
						atomic.AddInt64(&hbad, 1)
						report("hammer:"+cl.Name+":panic", m)
						return
					}
					if !sameVec(v, solo[g][j]) {
						atomic.AddInt64(&hbad, 1)
						report("hammer:"+cl.Name, fmt.Sprintf("%s called from %d goroutines at once, each on its own %d-byte input: goroutine %d call %d returned %v, alone it returns %v", cl.Name, G, len(in.d), g, k, v, solo[g][j]))
						return
					}
				}
			}(g)
		}
		close(start)
		wg.Wait()
		atomic.AddInt64(&hammered, int64(G*per))
		done(cl.Name)
	}
	return hammered
}

func weakKeyPairs(c *ev.Ctx, seed uint64) {
	type bcall struct {
		name string
		fn   func(d []byte) []float64
	}
	pq := func(p, q float64) []float64 { return []float64{p, q} }
	res := func(r *R.TestResult) []float64 { return []float64{r.P, r.Q, r.P2, r.Q2} }
	calls := []bcall{
		{"MonoBitFrequencyTestBytes", func(d []byte) []float64 { return pq(R.MonoBitFrequencyTestBytes(d)) }},
		{"FrequencyWithinBlockTestBytes", func(d []byte) []float64 { return pq(R.FrequencyWithinBlockTestBytes(d, 100)) }},
		{"PokerTestBytes4", func(d []byte) []float64 { return pq(R.PokerTestBytes(d, 4)) }},
		{"PokerTestBytes8", func(d []byte) []float64 { return pq(R.PokerTestBytes(d, 8)) }},
		{"PokerTestBytes2", func(d []byte) []float64 { return pq(R.PokerTestBytes(d, 2)) }},
		{"OverlappingTemplateMatchingTestBytes", func(d []byte) []float64 {
			a, b, e, f := R.OverlappingTemplateMatchingTestBytes(d, 5)
			return []float64{a, b, e, f}
		}},
		{"RunsTestBytes", func(d []byte) []float64 { return pq(R.RunsTestBytes(d)) }},
		{"RunsDistributionTestBytes", func(d []byte) []float64 { return pq(R.RunsDistributionTestBytes(d)) }},
		{"LongestRunOfOnesInABlockTestBytes", func(d []byte) []float64 { return pq(R.LongestRunOfOnesInABlockTestBytes(d, true)) }},
		{"BinaryDerivativeTestBytes", func(d []byte) []float64 { return pq(R.BinaryDerivativeTestBytes(d, 7)) }},
		{"AutocorrelationTestBytes", func(d []byte) []float64 { return pq(R.AutocorrelationTestBytes(d, 16)) }},
		{"MatrixRankTestBytes", func(d []byte) []float64 { return pq(R.MatrixRankTestBytes(d, 32, 32)) }},
		{"CumulativeTestBytes", func(d []byte) []float64 { return pq(R.CumulativeTestBytes(d, true)) }},
		{"ApproximateEntropyTestBytes", func(d []byte) []float64 { return pq(R.ApproximateEntropyTestBytes(d, 5)) }},
		{"DiscreteFourierTransformTestBytes", func(d []byte) []float64 { return pq(R.DiscreteFourierTransformTestBytes(d)) }},
		{"LinearComplexityTestBytes", func(d []byte) []float64 { return pq(R.LinearComplexityTestBytes(d, 500)) }},
		{"MaurerUniversalTestBytes", func(d []byte) []float64 { return pq(R.MaurerUniversalTestBytes(d)) }},
		{"Round12", func(d []byte) []float64 {
			var o []float64
			for _, r := range detect.Round12(d) {
				o = append(o, res(r)...)
			}
			return o
		}},
		{"registry[7]", func(d []byte) []float64 { return res(R.TestMethodArr[6].Runner(d)) }},
		{"registry[12]", func(d []byte) []float64 { return res(R.TestMethodArr[11].Runner(d)) }},
	}
	r := gen.NewRng(gen.Mix(seed, 1888))
	var pairs, checks int64
	for _, nb := range []int{128, 2500} {
		a := gen.Pack(gen.Seq{Fam: "slight", N: nb * 8, Seed: gen.Mix(seed, 1889, uint64(nb))}.Bits())
		mk := func(f func(b []byte)) []byte {
			b := append([]byte(nil), a...)
			f(b)
			return b
		}
		type pair struct {
			what string
			b    []byte
		}
		var ps []pair
		ps = append(ps, pair{"same prefix, last byte differs", mk(func(b []byte) { b[len(b)-1] ^= 0x5A })})
		ps = append(ps, pair{"same suffix, first byte differs", mk(func(b []byte) { b[0] ^= 0xA5 })})
		ps = append(ps, pair{"one middle bit differs", mk(func(b []byte) { b[len(b)/2] ^= 0x10 })})
		ps = append(ps, pair{"two bytes swapped (same multiset of bytes)", mk(func(b []byte) {
			i, j := 3, len(b)-7
			for b[i] == b[j] {
				j--
			}
			b[i], b[j] = b[j], b[i]
		})})
		ps = append(ps, pair{"same Adler-32 (+1,-2,+1 on three consecutive bytes)", mk(func(b []byte) {
			for i := 10; i+2 < len(b); i++ {
				if b[i] < 255 && b[i+1] >= 2 && b[i+2] < 255 {
					b[i]++
					b[i+1] -= 2
					b[i+2]++
					return
				}
			}
		})})
		off := r.Intn(nb - 16)
		for _, cp := range []struct {
			what string
			b    []byte
			ok   bool
		}{
			{"same CRC-64/ECMA", crcPartner(a, crc64.ECMA, 64, off), false},
			{"same CRC-64/ISO", crcPartner(a, crc64.ISO, 64, off), false},
			{"same CRC-32/IEEE", crcPartner(a, uint64(crc32.IEEE), 32, off), false},
			{"same CRC-32/Castagnoli", crcPartner(a, uint64(crc32.Castagnoli), 32, off), false},
		} {
			ok := false
			switch cp.what {
			case "same CRC-64/ECMA":
				ok = crc64.Checksum(a, crc64.MakeTable(crc64.ECMA)) == crc64.Checksum(cp.b, crc64.MakeTable(crc64.ECMA))
			case "same CRC-64/ISO":
				ok = crc64.Checksum(a, crc64.MakeTable(crc64.ISO)) == crc64.Checksum(cp.b, crc64.MakeTable(crc64.ISO))
			case "same CRC-32/IEEE":
				ok = crc32.ChecksumIEEE(a) == crc32.ChecksumIEEE(cp.b)
			case "same CRC-32/Castagnoli":
				ok = crc32.Checksum(a, crc32.MakeTable(crc32.Castagnoli)) == crc32.Checksum(cp.b, crc32.MakeTable(crc32.Castagnoli))
			}
			if ok && !bytes.Equal(a, cp.b) {
				ps = append(ps, pair{cp.what, cp.b})
				c.Count("checksum_colliding_pairs_constructed", 1)
			}
		}
		if adler32.Checksum(a) != adler32.Checksum(ps[4].b) {
			c.Count("adler_pair_not_colliding", 1)
		}
		// unrelated traffic of the same length
		var traffic [][]byte
		for k := 0; k < 24; k++ {
			traffic = append(traffic, gen.NewRng(gen.Mix(seed, 1890, uint64(nb), uint64(k))).Bytes(nb))
		}
		for _, cl := range calls {
			if nb < 1121 && (cl.name == "MaurerUniversalTestBytes") {
				continue
			}
			cl := cl
			call := func(d []byte) (v []float64, pan string) {
				if p, m := guard(func() { v = cl.fn(d) }); p {
					return nil, m
				}
				return v, ""
			}
			flush := func() {
				for _, t := range traffic {
					call(t)
				}
			}
			for _, pr := range ps {
				flush()
				fresh, pan := call(pr.b)
				if pan != "" {
					c.Violation("weakkey:"+cl.name+":panic", pan, "c18", nb)
					continue
				}
				flush()
				ra, _ := call(a)
				got, _ := call(pr.b)
				ra2, _ := call(a)
				pairs++
				checks += 2
				c.Eval(ev.HashStr(fmt.Sprintf("weakkey|%d|%s|%s", nb, cl.name, pr.what)), true)
				if !sameVec(got, fresh) {
					c.Violation(fmt.Sprintf("weakkey:%s:%dB:%s", cl.name, nb, pr.what), fmt.Sprintf("%s on input B (%s as input A) returned %v right after A was evaluated, but %v after unrelated traffic (A gives %v)", cl.name, pr.what, got, fresh, ra), "c18", nb)
				} else if !sameVec(ra, ra2) {
					c.Violation(fmt.Sprintf("weakkey:%s:%dB:%s:A-changed", cl.name, nb, pr.what), fmt.Sprintf("%s on input A returned %v, then %v after B was evaluated", cl.name, ra, ra2), "c18", nb)
				}
			}
			// the same buffer re-used with new contents
			buf := append([]byte(nil), a...)
			r1, _ := call(buf)
			copy(buf, ps[2].b)
			r2, _ := call(buf)
			flush()
			want, _ := call(ps[2].b)
			checks++
			if !sameVec(r2, want) {
				c.Violation(fmt.Sprintf("weakkey:%s:%dB:buffer-reuse", cl.name, nb), fmt.Sprintf("%s on a buffer whose contents were changed in place returned %v (first contents gave %v), a fresh slice with the new contents gives %v", cl.name, r2, r1, want), "c18", nb)
			}
		}
	}
	c.Count("weak_key_pairs_evaluated", pairs)
	c.Count("weak_key_comparisons", checks)
}

func runC18(c *ev.Ctx) {
	c.Rule = "(a) every test entry point is called on byte and bit slices whose contents and spare capacity (canary-filled) are snapshotted before and compared after; (b) each call is repeated and must be bit-identical; (b2) soak: every cheap entry point 70000 times (heavy ones 400) in one process, call k must equal call 1; (b3) pairs of inputs a weak memoisation key would confuse (same prefix/suffix, same CRC-64/CRC-32/Adler-32, same byte multiset, same buffer re-used): the second input's result right after the first must equal its result after unrelated traffic; (c) G in {2,8,64} goroutines released together each run a seeded mix of the fifteen tests, byte/bit entry points, registry runners and both round functions on one shared buffer and on private buffers: every result must be bit-identical to the solo result; (c2) one goroutine pair per input size (2.5 kB ... 300 kB, i.e. FFT lengths 2^15 ... 2^22) released together on the length-sensitive entry points; (d) the same mixes run in a -race build and DATA RACE reports are violations; (e) the registry is unchanged. non-trivial = every call (each compares a real result vector); distinct = distinct (entry point, buffer, goroutine count, sharing)"
	c.Assumptions = []string{"the Go race detector reports only races that occur in an observed execution"}
	seed := uint64(c.Seed)
	before := append([]R.TestItem(nil), R.TestMethodArr...)
	// the -race child (d) is started first and collected at the end, so that it overlaps with (a)-(c)
	raceDone := make(chan error, 1)
	var raceCmd *exec.Cmd
	if rb := os.Getenv("VERIF_BIN_RACE"); rb != "" {
		work := os.Getenv("VERIF_WORK")
		rsizes := "2500,5000"
		if c.Thorough() {
			rsizes = "2500,12500,125000"
		}
		raceCmd = exec.Command(rb, "child", "c18race", fmt.Sprint(seed), rsizes, filepath.Join(work, "c18race.json"))
		raceCmd.Env = append(os.Environ(), "GORACE=halt_on_error=0 log_path="+filepath.Join(work, "race-c18"))
		if ef, err := os.Create(filepath.Join(work, "c18race.err")); err == nil {
			raceCmd.Stderr = ef
			defer ef.Close()
		}
		if err := raceCmd.Start(); err == nil {
			go func() { raceDone <- raceCmd.Wait() }()
		} else {
			raceDone <- err
		}
	}
	// (a)+(b): solo purity, all specs, several lengths and families
	lens := []int{1000, 8968, 20000, 100000}
	if c.Thorough() {
		lens = append(lens, 1000000)
	}
	var works []gen.Seq
	for _, n := range lens {
		for fi, f := range []string{"slight", "uniform", "markov", "zeros", "alt", "lfsr"} {
			works = append(works, gen.Seq{Fam: f, N: n, Seed: gen.Mix(seed, 182, uint64(n), uint64(fi))})
		}
	}
	parallel(len(works), func(i int) {
		sq := works[i]
		bits := sq.Bits()
		n := len(bits)
		bb := make([]bool, n, n+32)
		copy(bb, gen.Bools(bits))
		for j := n; j < n+32; j++ {
			bb[:cap(bb)][j] = j%3 == 0
		}
		dd := make([]byte, n/8, n/8+32)
		copy(dd, gen.Pack(bits))
		for j := n / 8; j < n/8+32; j++ {
			dd[:cap(dd)][j] = 0x5A
		}
		snapB := append([]bool(nil), bb[:cap(bb)]...)
		snapD := append([]byte(nil), dd[:cap(dd)]...)
		for _, s := range allSpecs(n, false) {
			var v1, v2 []float64
			if p, m := guard(func() { v1 = libCall(s, bb, dd); v2 = libCall(s, bb, dd) }); p {
				c.Violation(fmt.Sprintf("%s:%s:panic", s.String(), sq.String()), m, "seqtest", SeqCase{sq, s})
				continue
			}
			c.Eval(ev.HashStr("solo|"+sq.String()+"|"+s.String()), true)
			c.Count("solo_calls_with_input_snapshot", 2)
			if !sameVec(v1, v2) {
				c.Violation(fmt.Sprintf("%s:%s:nondeterministic", s.String(), sq.String()), fmt.Sprintf("two calls on the same data: %v then %v", v1, v2), "seqtest", SeqCase{sq, s})
			}
			for j := range snapB {
				if bb[:cap(bb)][j] != snapB[j] {
					c.Violation(fmt.Sprintf("%s:%s:input-modified", s.String(), sq.String()), fmt.Sprintf("caller's bit slice changed at index %d (len %d, cap %d)", j, n, cap(bb)), "seqtest", SeqCase{sq, s})
					copy(bb[:cap(bb)], snapB)
					break
				}
			}
			for j := range snapD {
				if dd[:cap(dd)][j] != snapD[j] {
					c.Violation(fmt.Sprintf("%s:%s:input-modified", s.String(), sq.String()), fmt.Sprintf("caller's byte slice changed at index %d", j), "seqtest", SeqCase{sq, s})
					copy(dd[:cap(dd)], snapD)
					break
				}
			}
		}
	})
	// (b2) soak: the same call many times in one process (more than 2^16 for the cheap entry points):
	// call number k must return what call number 1 returned
	{
		bits := gen.Seq{Fam: "slight", N: 1024, Seed: gen.Mix(seed, 1866)}.Bits()
		data := gen.Pack(bits)
		bools := gen.Bools(bits)
		big := gen.Seq{Fam: "slight", N: 8968, Seed: gen.Mix(seed, 1867)}.Bits()
		bigD, bigB := gen.Pack(big), gen.Bools(big)
		heavy := map[string]bool{"LinearComplexity500": true, "DFT": true, "DFTBytes": true, "Round12": true, "Round15": true, "Maurer": true, "registry[13]": true, "registry[14]": true, "registry[15]": true, "MatrixRank": true}
		calls := pureCalls(8968)
		var soak int64
		parallel(len(calls), func(ci int) {
			cl := calls[ci]
			d, b := data, bools
			n := 70000
			if heavy[cl.Name] || strings.HasPrefix(cl.Name, "registry") {
				d, b = bigD, bigB
				n = 400
			}
			if c.Lite() {
				n /= 6
			}
			var first []float64
			if p, m := guard(func() { first = cl.Fn(d, b) }); p {
				c.Violation("soak:"+cl.Name+":panic", m, "c18", 0)
				return
			}
			for k := 2; k <= n; k++ {
				var got []float64
				if p, m := guard(func() { got = cl.Fn(d, b) }); p {
					c.Violation(fmt.Sprintf("soak:%s:call%d:panic", cl.Name, k), m, "c18", k)
					return
				}
				if !sameVec(got, first) {
					c.Violation(fmt.Sprintf("soak:%s:call%d", cl.Name, k), fmt.Sprintf("call number %d of %s on the same data returned %v, the first call returned %v", k, cl.Name, got, first), "c18", k)
					return
				}
			}
			mu18.Lock()
			soak += int64(n)
			mu18.Unlock()
			c.Eval(ev.HashStr("soak|"+cl.Name), true)
		})
		c.Count("soak_repeated_calls", soak)
	}
	// (b2') parameter history: the same test called with different parameters and other inputs in between.
	// A(x) must return what it returned the first time whatever was called since: scratch state that one
	// parameter set writes and another only partly overwrites (pooled matrices, tables sized for another m)
	// shows up as a result that depends on the previous call
	{
		type hcall struct {
			name string
			fn   func(b []bool) []float64
		}
		var hc []hcall
		pq := func(p, q float64) []float64 { return []float64{p, q} }
		for _, mq := range [][2]int{{32, 32}, {32, 16}, {16, 32}, {16, 8}, {8, 8}, {31, 17}, {3, 29}} {
			mq := mq
			hc = append(hc, hcall{fmt.Sprintf("MatrixRankProto(%d,%d)", mq[0], mq[1]), func(b []bool) []float64 { return pq(R.MatrixRankProto(b, mq[0], mq[1])) }})
		}
		for _, m := range []int{2, 4, 8} {
			m := m
			hc = append(hc, hcall{fmt.Sprintf("PokerProto(%d)", m), func(b []bool) []float64 { return pq(R.PokerProto(b, m)) }})
			hc = append(hc, hcall{fmt.Sprintf("PokerTestBytes(%d)", m), func(b []bool) []float64 { return pq(R.PokerTestBytes(packBools(b), m)) }})
		}
		for _, m := range []int{2, 3, 5, 7} {
			m := m
			hc = append(hc, hcall{fmt.Sprintf("Overlapping(%d)", m), func(b []bool) []float64 {
				p1, p2, q1, q2 := R.OverlappingTemplateMatchingProto(b, m)
				return []float64{p1, p2, q1, q2}
			}})
			hc = append(hc, hcall{fmt.Sprintf("ApproximateEntropy(%d)", m), func(b []bool) []float64 { return pq(R.ApproximateEntropyProto(b, m)) }})
		}
		for _, m := range []int{10, 100, 1000} {
			m := m
			hc = append(hc, hcall{fmt.Sprintf("FrequencyWithinBlock(%d)", m), func(b []bool) []float64 { return pq(R.FrequencyWithinBlockProto(b, m)) }})
		}
		for _, m := range []int{500, 1000, 64, 33} {
			m := m
			hc = append(hc, hcall{fmt.Sprintf("LinearComplexity(%d)", m), func(b []bool) []float64 { return pq(R.LinearComplexityProto(b, m)) }})
		}
		for _, k := range []int{1, 3, 7, 15} {
			k := k
			hc = append(hc, hcall{fmt.Sprintf("BinaryDerivative(%d)", k), func(b []bool) []float64 { return pq(R.BinaryDerivativeProto(b, k)) }})
			hc = append(hc, hcall{fmt.Sprintf("Autocorrelation(%d)", k+1), func(b []bool) []float64 { return pq(R.AutocorrelationProto(b, k+1)) }})
		}
		var xs [][]bool
		for i, fam := range []string{"slight", "uniform", "markov", "ones"} {
			xs = append(xs, gen.Bools(gen.Seq{Fam: fam, N: []int{8968, 4099, 12000, 5000}[i], Seed: gen.Mix(seed, 1899, uint64(i))}.Bits()))
		}
		x := xs[0]
		var hist int64
		for ai, a := range hc {
			var first []float64
			if p, _ := guard(func() { first = a.fn(x) }); p {
				continue // outside this parameter set's domain for the input: nothing to repeat
			}
			for bi, b := range hc {
				if strings.SplitN(a.name, "(", 2)[0] != strings.SplitN(b.name, "(", 2)[0] && (ai+bi)%5 != 0 {
					continue // all variants of the same test, a fifth of the others
				}
				y := xs[1+(ai+bi)%3]
				guard(func() { b.fn(y) })
				var got []float64
				if p, m := guard(func() { got = a.fn(x) }); p {
					c.Violation(fmt.Sprintf("history:%s after %s:panic", a.name, b.name), m, "c18", ai)
					break
				}
				hist++
				if !sameVec(got, first) {
					c.Violation(fmt.Sprintf("history:%s after %s", a.name, b.name), fmt.Sprintf("%s on the same data returned %v after a call of %s on other data; its first call returned %v", a.name, got, b.name, first), "c18", ai)
					break
				}
			}
			c.Eval(ev.HashStr("paramhistory|"+a.name), true)
		}
		c.Count("parameter_history_repeats", hist)
	}
	// (b4) hammer: every cheap entry point from 64 goroutines at once, each on inputs of its own (short, so
	// that calls are frequent): whatever an entry point recycles between calls (pools, scratch tables) must
	// not be visible to a concurrent caller of the SAME entry point
	{
		per := 1500
		if c.Lite() {
			per = 300
		}
		n := entryHammer(seed, per, func(key, msg string) { c.Violation(key, msg, "c18", nil) }, func(name string) { c.Eval(ev.HashStr("hammer|"+name), true) })
		c.Count("hammer_concurrent_calls_same_entry_point", n)
	}
	weakKeyPairs(c, seed)
	bufferReuse(c, seed)
	windowViews(c, seed)
	// (c) concurrency in this (plain) binary
	sizes := []int{2500, 12500}
	perG := 6
	if c.Thorough() {
		sizes = append(sizes, 125000)
		perG = 12
	}
	for _, nb := range sizes {
		res := concurrencyBatch(gen.Mix(seed, uint64(nb)), nb, []int{2, 8, 64}, perG)
		c.Count("concurrent_calls_compared_with_solo", int64(res.Calls))
		c.Count("concurrent_batches", int64(res.Batches))
		for k := 0; k < res.Calls && k < 5000; k++ {
			c.Eval(ev.HashStr(fmt.Sprintf("conc|%d|%d", nb, k)), true)
		}
		for _, m := range res.Mismatches {
			c.Violation(fmt.Sprintf("concurrent:%dB:%s", nb, clip(m, 40)), m, "c18", nb)
		}
		for _, m := range res.InputChanged {
			c.Violation(fmt.Sprintf("concurrent:%dB:input-modified", nb), m, "c18", nb)
		}
		if nb == 2500 {
			c.Sample(map[string]interface{}{"bytes": nb, "goroutine_counts": []int{2, 8, 64}, "calls_per_goroutine": perG, "concurrent_calls": res.Calls, "mismatches": len(res.Mismatches)})
		}
	}
	// (c2) mixed lengths at once: goroutines on inputs of different sizes (different FFT plan lengths,
	// different block-length regimes), released together; every result must equal the solo result
	{
		sizes := []int{2500, 12500, 20001, 125000, 150000, 131073, 300000}
		rounds := 2
		if c.Thorough() {
			sizes = append(sizes, 600000, 1250000, 1100000, 2500000) // two different plan lengths >= 2^24 among them
			rounds = 4
		}
		res := mixedLengthBatch(gen.Mix(seed, 1818), sizes, rounds)
		c.Count("mixed_length_concurrent_calls", int64(res.Calls))
		for k := 0; k < res.Calls; k++ {
			c.Eval(ev.HashStr(fmt.Sprintf("mixed|%d", k)), true)
		}
		for _, m := range res.Mismatches {
			c.Violation("concurrent-mixed-lengths:"+clip(m, 40), m, "c18", 0)
		}
		for _, m := range res.InputChanged {
			c.Violation("concurrent-mixed-lengths:input-modified", m, "c18", 0)
		}
	}
	// (d) the same under the race detector (child process built with -race)
	if rb := os.Getenv("VERIF_BIN_RACE"); rb != "" {
		work := os.Getenv("VERIF_WORK")
		outF := filepath.Join(work, "c18race.json")
		select {
		case <-raceDone:
		case <-time.After(40 * time.Minute):
			if raceCmd != nil && raceCmd.Process != nil {
				_ = raceCmd.Process.Kill()
			}
			c.Inconclusive("race child watchdog fired")
		}
		if b, err := os.ReadFile(outF); err == nil {
			var rr c18Result
			if json.Unmarshal(b, &rr) == nil {
				c.Count("concurrent_calls_under_race_detector", int64(rr.Calls))
				for _, m := range rr.Mismatches {
					c.Violation("concurrent-race-build:"+clip(m, 40), m, "c18", 0)
				}
				for _, m := range rr.InputChanged {
					c.Violation("concurrent-race-build:input-modified", m, "c18", 0)
				}
			}
		} else {
			eb, _ := os.ReadFile(filepath.Join(work, "c18race.err"))
			c.Inconclusive("race child produced no result: " + clip(string(eb), 500))
		}
		total, distinct, sample := raceReports(work)
		c.Count("race_detector_reports", int64(total))
		for k, n := range distinct {
			c.Violation("race:"+k, fmt.Sprintf("%d DATA RACE report(s), first:\n%s", n, sample), "race", k)
		}
	} else {
		c.Inconclusive("race binary not available")
	}
	// (e)
	if len(before) != len(R.TestMethodArr) {
		c.Violation("registry:length", "registry length changed", "registry", nil)
	} else {
		for i := range before {
			if before[i].Name != R.TestMethodArr[i].Name {
				c.Violation("registry:entry", fmt.Sprintf("registry entry %d changed", i), "registry", nil)
			}
		}
	}
}

func init() {
	childKinds["c18race"] = func(args []string) int {
		if len(args) < 3 {
			return 2
		}
		var seed uint64
		fmt.Sscan(args[0], &seed)
		var total c18Result
		var sizes []int
		cur := 0
		for _, ch := range args[1] + "," {
			if ch == ',' {
				if cur > 0 {
					sizes = append(sizes, cur)
				}
				cur = 0
			} else {
				cur = cur*10 + int(ch-'0')
			}
		}
		{
			r := mixedLengthBatch(gen.Mix(seed, 1819), []int{1250, 2500, 4100, 12500, 16400, 20001}, 2)
			total.Calls += r.Calls
			total.Mismatches = append(total.Mismatches, r.Mismatches...)
			total.InputChanged = append(total.InputChanged, r.InputChanged...)
		}
		for _, nb := range sizes {
			per := 4
			r := concurrencyBatch(gen.Mix(seed, uint64(nb), 5), nb, []int{2, 8, 64}, per)
			total.Calls += r.Calls
			total.Batches += r.Batches
			total.Mismatches = append(total.Mismatches, r.Mismatches...)
			total.InputChanged = append(total.InputChanged, r.InputChanged...)
		}
		{
			n := entryHammer(seed, 120, func(key, msg string) { total.Mismatches = append(total.Mismatches, key+": "+msg) }, func(string) {})
			total.Calls += int(n)
		}
		b, _ := json.Marshal(total)
		_ = os.WriteFile(args[2], b, 0o644)
		return 0
	}
	replayers["wellformed"] = func(raw json.RawMessage) (bool, string) {
		var cs wfCase
		if err := json.Unmarshal(raw, &cs); err != nil {
			return false, err.Error()
		}
		bits := cs.Seq.Bits()
		var data []byte
		if len(bits)%8 == 0 {
			data = gen.Pack(bits)
		}
		if len(cs.Spec.T) > 6 && cs.Spec.T[:6] == "runner" {
			var k int
			fmt.Sscanf(cs.Spec.T, "runner%d", &k)
			var res *R.TestResult
			if p, m := guard(func() { res = R.TestMethodArr[k-1].Runner(data) }); p {
				return true, m
			}
			minP := res.P
			if k == 4 && res.P2 < minP {
				minP = res.P2
			}
			return res.Pass != (minP >= 0.01), fmt.Sprintf("%+v", *res)
		}
		var v []float64
		if p, m := guard(func() { v = libCall(cs.Spec, gen.Bools(bits), data) }); p {
			return true, m
		}
		msg := wellFormed(cs.Spec, v)
		return msg != "", fmt.Sprintf("%v %s", v, msg)
	}
	replayers["symmetry"] = func(raw json.RawMessage) (bool, string) {
		var cs symCase
		if err := json.Unmarshal(raw, &cs); err != nil {
			return false, err.Error()
		}
		w, msg, pan := symEval(cs, cs.Seq.Bits())
		return pan || w > 1e-8, fmt.Sprintf("%s |delta| %.3g", msg, w)
	}
}

// packBools packs a bit slice MSB-first (a trailing partial byte is dropped).
func packBools(b []bool) []byte {
	out := make([]byte, len(b)/8)
	for i := range out {
		for j := 0; j < 8; j++ {
			if b[i*8+j] {
				out[i] |= 0x80 >> uint(j)
			}
		}
	}
	return out
}
