package main

import (
	"encoding/json"
	"fmt"
	"math"
	"os"
	"os/exec"
	"runtime/debug"
	"strings"

	R "github.com/Trisia/randomness"

	"verif/internal/ev"
	"verif/internal/gen"
	"verif/internal/oracle"
)

// Spec names one (test, parameter) pair of the library's bit-level (or byte-level) API.
type Spec struct {
	T string `json:"t"`
	P int    `json:"p,omitempty"` // m / k / d ; for longest & cusum: 1 = ones / forward, 0 = zeros / backward
}

func (s Spec) String() string { return fmt.Sprintf("%s(%d)", s.T, s.P) }

// minLen is the smallest admissible n for the spec (the standard's minimum and the test's own).
func (s Spec) minLen() int {
	switch s.T {
	case "mono", "runs", "cusum":
		return 1
	case "monoBytes":
		return 8
	case "blockAuto":
		return 100
	case "block":
		return imax(s.P, 8)
	case "poker", "pokerBytes":
		return imax(8, s.P)
	case "overlap":
		return imax(5, s.P)
	case "apen":
		return imax(8, s.P+1)
	case "runsDist":
		return 100
	case "longest", "longestBytes":
		return 128
	case "binder":
		return imax(7, s.P+1)
	case "autocorr":
		return imax(16, s.P+1)
	case "rank":
		return 1024
	case "lc":
		return imax(s.P, 1)
	case "maurer":
		return 7 * 1281
	case "dft":
		return 2
	}
	panic("minLen: " + s.T)
}

func imax(a, b int) int {
	if a > b {
		return a
	}
	return b
}

func (s Spec) needsBytes() bool {
	return s.T == "monoBytes" || s.T == "pokerBytes" || s.T == "longestBytes"
}

// libCall runs the code under test. Returns [P,Q] or [P1,P2,Q1,Q2].
func libCall(s Spec, bools []bool, bytes []byte) []float64 {
	pq := func(p, q float64) []float64 { return []float64{p, q} }
	switch s.T {
	case "mono":
		return pq(R.MonoBitFrequencyTest(bools))
	case "monoBytes":
		return pq(R.MonoBitFrequencyTestBytes(bytes))
	case "blockAuto":
		return pq(R.FrequencyWithinBlockTest(bools))
	case "block":
		return pq(R.FrequencyWithinBlockProto(bools, s.P))
	case "poker":
		return pq(R.PokerProto(bools, s.P))
	case "pokerBytes":
		return pq(R.PokerTestBytes(bytes, s.P))
	case "overlap":
		p1, p2, q1, q2 := R.OverlappingTemplateMatchingProto(bools, s.P)
		return []float64{p1, p2, q1, q2}
	case "apen":
		return pq(R.ApproximateEntropyProto(bools, s.P))
	case "runs":
		return pq(R.RunsTest(bools))
	case "runsDist":
		return pq(R.RunsDistributionTest(bools))
	case "longest":
		return pq(R.LongestRunOfOnesInABlockProto(bools, s.P == 1))
	case "longestBytes":
		return pq(R.LongestRunOfOnesInABlockTestBytes(bytes, s.P == 1))
	case "binder":
		return pq(R.BinaryDerivativeProto(bools, s.P))
	case "autocorr":
		return pq(R.AutocorrelationProto(bools, s.P))
	case "cusum":
		return pq(R.CumulativeTest(bools, s.P == 1))
	case "rank":
		return pq(R.MatrixRankProto(bools, 32, 32))
	case "lc":
		return pq(R.LinearComplexityProto(bools, s.P))
	case "maurer":
		return pq(R.MaurerUniversalTest(bools))
	case "dft":
		return pq(R.DiscreteFourierTransformTest(bools))
	}
	panic("libCall: " + s.T)
}

// refCall runs the reference model. For dft it returns all admissible [P,Q] pairs back to back.
func refCall(s Spec, e oracle.Bits) []float64 {
	pq := func(p, q float64) []float64 { return []float64{p, q} }
	switch s.T {
	case "mono", "monoBytes":
		return pq(oracle.Monobit(e))
	case "blockAuto":
		return pq(oracle.BlockFrequency(e, oracle.AutoBlockLen(len(e))))
	case "block":
		return pq(oracle.BlockFrequency(e, s.P))
	case "poker", "pokerBytes":
		return pq(oracle.Poker(e, s.P))
	case "overlap":
		p1, p2, q1, q2 := oracle.Overlapping(e, s.P)
		return []float64{p1, p2, q1, q2}
	case "apen":
		return pq(oracle.ApEn(e, s.P))
	case "runs":
		return pq(oracle.Runs(e))
	case "runsDist":
		return pq(oracle.RunsDistribution(e))
	case "longest", "longestBytes":
		return pq(oracle.LongestRun(e, s.P == 1))
	case "binder":
		return pq(oracle.BinaryDerivative(e, s.P))
	case "autocorr":
		return pq(oracle.Autocorrelation(e, s.P))
	case "cusum":
		return pq(oracle.Cumulative(e, s.P == 1))
	case "rank":
		return pq(oracle.MatrixRank(e))
	case "lc":
		return pq(oracle.LinearComplexity(e, s.P))
	case "maurer":
		return pq(oracle.Maurer(e))
	case "dft":
		r := oracle.DFT(e)
		var out []float64
		for n1 := r.N1lo; n1 <= r.N1hi; n1++ {
			p, q := oracle.DFTPQ(len(e), n1)
			out = append(out, p, q)
		}
		return out
	}
	panic("refCall: " + s.T)
}

// diff is |a-b| with NaN==NaN and Inf==Inf treated as agreement.
func diff(a, b float64) float64 {
	if math.IsNaN(a) || math.IsNaN(b) {
		if math.IsNaN(a) && math.IsNaN(b) {
			return 0
		}
		return math.Inf(1)
	}
	if a == b {
		return 0
	}
	return math.Abs(a - b)
}

// SeqCase is the replayable unit: one sequence, one spec.
type SeqCase struct {
	Seq  gen.Seq `json:"seq"`
	Spec Spec    `json:"spec"`
}

type seqOutcome struct {
	Got, Want []float64
	Worst     float64
	Panic     string
	Ambiguous bool
}

const tolPQ = 1e-8

// evalSeqSpec compares library and reference on one (bits, spec).
func evalSeqSpec(s Spec, bits []uint8, bools []bool, bytes []byte) seqOutcome {
	var o seqOutcome
	want := refCall(s, oracle.Bits(bits))
	o.Want = want
	var got []float64
	if p, msg := guard(func() { got = libCall(s, bools, bytes) }); p {
		o.Panic = msg
		o.Worst = math.Inf(1)
		return o
	}
	o.Got = got
	if s.T == "dft" {
		best := math.Inf(1)
		for i := 0; i+1 < len(want); i += 2 {
			d := math.Max(diff(got[0], want[i]), diff(got[1], want[i+1]))
			if d < best {
				best = d
			}
		}
		o.Worst = best
		o.Ambiguous = len(want) > 2
		return o
	}
	for i := range want {
		if d := diff(got[i], want[i]); d > o.Worst {
			o.Worst = d
		}
	}
	return o
}

// seqWork is one sequence with the specs to run on it.
type seqWork struct {
	Seq        gen.Seq
	Specs      []Spec
	Degenerate bool // designated degenerate family: counts as non-trivial even if P is 0/1
}

// runSeqWorks executes all works in parallel and reports into c.
func runSeqWorks(c *ev.Ctx, works []seqWork) {
	if c.Lite() && len(works) > 12 {
		var keep []seqWork
		for i, w := range works {
			if i%6 == int(uint64(c.Seed)%6) || (w.Seq.N >= 60000 && w.Seq.N <= 3000000) {
				keep = append(keep, w)
			}
		}
		works = keep
	}
	parallel(len(works), func(i int) {
		w := works[i]
		bits := w.Seq.Bits()
		bools := gen.Bools(bits)
		var bytes []byte
		for _, s := range w.Specs {
			if s.needsBytes() && bytes == nil {
				if len(bits)%8 != 0 {
					continue
				}
				bytes = gen.Pack(bits)
			}
		}
		for _, s := range w.Specs {
			if len(bits) < s.minLen() || (s.needsBytes() && len(bits)%8 != 0) {
				continue
			}
			o := evalSeqSpec(s, bits, bools, bytes)
			c.Count("calls_"+s.T, 1)
			h := ev.HashStr(w.Seq.String() + "|" + s.String())
			nontriv := w.Degenerate
			if len(o.Want) >= 1 && o.Want[0] > 1e-9 && o.Want[0] < 1-1e-9 {
				nontriv = true
				c.Count("midrange_P_cases", 1)
			}
			c.Eval(h, nontriv)
			if o.Ambiguous {
				c.Count("dft_threshold_ambiguous", 1)
			}
			if o.Panic != "" {
				c.Violation(fmt.Sprintf("%s:%s:panic", s.String(), w.Seq.String()), o.Panic, "seqtest", SeqCase{w.Seq, s})
				continue
			}
			if !math.IsInf(o.Worst, 1) {
				c.Max("worst_abs_diff_"+s.T, o.Worst)
			}
			if o.Worst > tolPQ {
				key := fmt.Sprintf("%s:%s", s.String(), w.Seq.String())
				if (s.T == "block" || s.T == "blockAuto") && s.P > 0 && len(bits)/s.P > 4000000 {
					// more than 4*10^6 blocks: the library's float64 igamc / accumulation is known to lose
					// up to ~2e-7 here (KNOWN_FINDINGS.txt); anything grosser is a different violation
					if o.Worst <= 1e-6 {
						key = "largeN-block:" + key
					} else {
						key = "largeN-block-gross:" + key
					}
				}
				c.Violation(key,
					fmt.Sprintf("library %v reference %v (|diff| %.3g > 1e-8)", o.Got, o.Want, o.Worst), "seqtest", SeqCase{w.Seq, s})
				continue
			}
			if c.NSamples() < 5 && nontriv && i%7 == 0 {
				c.Sample(map[string]interface{}{"seq": w.Seq.String(), "test": s.String(), "library": o.Got, "reference": o.Want})
			}
		}
	})
}

func init() {
	replayers["seqtest"] = func(raw json.RawMessage) (bool, string) {
		var cs SeqCase
		if err := json.Unmarshal(raw, &cs); err != nil {
			return false, "bad case: " + err.Error()
		}
		bits := cs.Seq.Bits()
		var bytes []byte
		if len(bits)%8 == 0 {
			bytes = gen.Pack(bits)
		}
		o := evalSeqSpec(cs.Spec, bits, gen.Bools(bits), bytes)
		if o.Panic != "" {
			return true, o.Panic
		}
		msg := fmt.Sprintf("%s on %s: library %v reference %v |diff| %.3g", cs.Spec, cs.Seq, o.Got, o.Want, o.Worst)
		return o.Worst > tolPQ, msg
	}
}

// degenerateFam says whether a family is a designated degenerate one.
func degenerateFam(f string) bool {
	switch f {
	case "zeros", "ones", "alt", "singlerun", "sparse", "periodic", "byteperiodic", "walk", "transition", "lfsr", "longruns", "maurergap", "maurersparse", "debruijn", "counter", "cusumword":
		return true
	}
	return false
}

// famWorks builds one work item per (family, length, replicate).
func famWorks(seed uint64, fams []string, lengths []int, reps int, specs func(n int) []Spec) []seqWork {
	var out []seqWork
	for _, f := range fams {
		for _, n := range lengths {
			for r := 0; r < reps; r++ {
				if r > 0 && (f == "zeros" || f == "ones" || f == "alt") {
					continue
				}
				sq := gen.Seq{Fam: f, N: n, Seed: gen.Mix(seed, uint64(n), uint64(r), uint64(len(f)))}
				out = append(out, seqWork{Seq: sq, Specs: specs(n), Degenerate: degenerateFam(f)})
			}
		}
	}
	return out
}

// ---- the library in a 32-bit process on sequences of tens of megabits ----
//
// Products such as 95*n or n*m stay inside a 64-bit int for every admissible n but leave a 32-bit one
// from n ~ 2*10^7; the 32-bit subrun of the quick workload never gets there. Here the 32-bit build of the
// harness (child process) only runs the library; the reference is computed in this (64-bit) process.

type big386Req struct {
	Seq   gen.Seq `json:"seq"`
	Specs []Spec  `json:"specs"`
}

type big386Line struct {
	Spec  Spec      `json:"spec"`
	Got   []float64 `json:"got"`
	Nan   []bool    `json:"nan"`
	Panic string    `json:"panic,omitempty"`
}

func init() {
	childKinds["seqlib"] = func(args []string) int {
		var rq big386Req
		if err := json.NewDecoder(os.Stdin).Decode(&rq); err != nil {
			fmt.Println("seqlib: bad request:", err)
			return 2
		}
		bits := rq.Seq.Bits()
		bools := gen.Bools(bits)
		var bytes []byte
		if len(bits)%8 == 0 {
			bytes = gen.Pack(bits)
		}
		bits = nil
		for _, s := range rq.Specs {
			var ln big386Line
			ln.Spec = s
			var got []float64
			if p, msg := guard(func() { got = libCall(s, bools, bytes) }); p {
				ln.Panic = msg
			}
			for _, v := range got { // JSON has no NaN/Inf
				if math.IsNaN(v) || math.IsInf(v, 0) {
					ln.Nan = append(ln.Nan, true)
					ln.Got = append(ln.Got, 0)
				} else {
					ln.Nan = append(ln.Nan, false)
					ln.Got = append(ln.Got, v)
				}
			}
			b, _ := json.Marshal(ln)
			fmt.Println("SEQLIB " + string(b))
			debug.FreeOSMemory()
		}
		return 0
	}
}

// runBig386 evaluates works with the library in the 32-bit build (one child per work) against the reference here.
func runBig386(c *ev.Ctx, works []seqWork) {
	bin := os.Getenv("VERIF_BIN_386")
	if bin == "" || c.Lite() || os.Getenv("VERIF_SUBRUN") != "" {
		c.Note("big_32bit_cases", "skipped (no 32-bit build of the harness, or a subrun)")
		return
	}
	parallelN(4, len(works), func(i int) {
		w := works[i]
		rq, _ := json.Marshal(big386Req{w.Seq, w.Specs})
		cmd := exec.Command(bin, "child", "seqlib")
		cmd.Stdin = strings.NewReader(string(rq))
		out, err := cmd.CombinedOutput()
		lines := map[string]big386Line{}
		for _, l := range strings.Split(string(out), "\n") {
			if strings.HasPrefix(l, "SEQLIB ") {
				var ln big386Line
				if json.Unmarshal([]byte(l[7:]), &ln) == nil {
					lines[ln.Spec.String()] = ln
				}
			}
		}
		bits := w.Seq.Bits()
		for _, s := range w.Specs {
			key := fmt.Sprintf("32bit:%s:%s", s.String(), w.Seq.String())
			ln, ok := lines[s.String()]
			c.Eval(ev.HashStr(key), true)
			c.Count("calls_in_32_bit_process_"+s.T, 1)
			if !ok {
				// the child died before answering this spec: out of memory is a limit of the platform, a Go
				// panic/fatal error of the library is not
				tail := clipS(string(out), 1500)
				if strings.Contains(string(out), "out of memory") || strings.Contains(string(out), "cannot allocate") {
					c.Count("32_bit_cases_out_of_memory", 1)
					continue
				}
				c.Violation(key+":died", fmt.Sprintf("32-bit process died without a result (%v): %s", err, tail), "seqtest386", SeqCase{w.Seq, s})
				continue
			}
			if ln.Panic != "" {
				if strings.Contains(ln.Panic, "out of memory") {
					c.Count("32_bit_cases_out_of_memory", 1)
					continue
				}
				c.Violation(key+":panic", "in a 32-bit process: "+ln.Panic, "seqtest386", SeqCase{w.Seq, s})
				continue
			}
			got := append([]float64(nil), ln.Got...)
			for k := range got {
				if k < len(ln.Nan) && ln.Nan[k] {
					got[k] = math.NaN()
				}
			}
			want := refCall(s, oracle.Bits(bits))
			worst := 0.0
			if s.T == "dft" {
				worst = math.Inf(1)
				for k := 0; k+1 < len(want); k += 2 {
					if d := math.Max(diff(got[0], want[k]), diff(got[1], want[k+1])); d < worst {
						worst = d
					}
				}
			} else {
				for k := range want {
					if k >= len(got) {
						worst = math.Inf(1)
					} else if d := diff(got[k], want[k]); d > worst {
						worst = d
					}
				}
			}
			if !math.IsInf(worst, 1) {
				c.Max("worst_abs_diff_32bit_"+s.T, worst)
			}
			if worst > tolPQ {
				c.Violation(key, fmt.Sprintf("in a 32-bit process (GOARCH=386): library %v reference %v (|diff| %.3g > 1e-8)", got, want, worst), "seqtest386", SeqCase{w.Seq, s})
			}
		}
	})
}
