package main

import (
	"bytes"
	"encoding/hex"
	"encoding/json"
	"fmt"
	"math"
	"os"
	"os/exec"
	"path/filepath"
	"regexp"
	"sort"
	"strconv"
	"strings"
	"sync"
	"syscall"
	"time"

	R "github.com/Trisia/randomness"

	"verif/internal/ev"
	"verif/internal/gen"
)

func init() {
	register("C13", "exploration", runC13)
	register("C20", "exploration", runC20)
}

func repoDir() string {
	if d := os.Getenv("VERIF_REPO_DIR"); d != "" {
		return d
	}
	return "/repo"
}

func goEnv() []string {
	return append(os.Environ(), "GOFLAGS=-mod=mod", "GOPROXY=off", "GOSUMDB=off", "GOTOOLCHAIN=local")
}

// procResult is what one external process run looked like.
type procResult struct {
	Exit     int
	Status   string // exited | deadlock | timeout | crash
	Stderr   string
	Stdout   string
	Duration time.Duration
}

// runProc runs a command with a generous watchdog (timeout => inconclusive unless the runtime reported a deadlock).
func runProc(dir string, env []string, limit time.Duration, argv ...string) procResult {
	cmd := exec.Command(argv[0], argv[1:]...)
	cmd.Dir = dir
	cmd.Env = env
	var so, se bytes.Buffer
	cmd.Stdout = &so
	cmd.Stderr = &se
	cmd.SysProcAttr = &syscall.SysProcAttr{Setpgid: true}
	t0 := time.Now()
	if err := cmd.Start(); err != nil {
		return procResult{Exit: -1, Status: "crash", Stderr: err.Error()}
	}
	done := make(chan error, 1)
	go func() { done <- cmd.Wait() }()
	var res procResult
	select {
	case err := <-done:
		res.Status = "exited"
		if err != nil {
			if ee, ok := err.(*exec.ExitError); ok {
				res.Exit = ee.ExitCode()
			} else {
				res.Exit = -1
			}
		}
	case <-time.After(limit):
		_ = syscall.Kill(-cmd.Process.Pid, syscall.SIGQUIT)
		select {
		case <-done:
		case <-time.After(10 * time.Second):
			_ = syscall.Kill(-cmd.Process.Pid, syscall.SIGKILL)
			<-done
		}
		res.Status = "timeout"
		res.Exit = -1
	}
	res.Duration = time.Since(t0)
	res.Stderr = se.String()
	res.Stdout = so.String()
	if strings.Contains(res.Stderr, "all goroutines are asleep - deadlock!") {
		res.Status = "deadlock"
	} else if res.Status == "exited" && res.Exit != 0 && (strings.Contains(res.Stderr, "panic:") || strings.Contains(res.Stderr, "fatal error:")) {
		res.Status = "crash"
	}
	return res
}

func tailStr(s string, n int) string {
	if len(s) > n {
		return "…" + s[len(s)-n:]
	}
	return s
}

// envVariant returns one of four process environments: inherited, minimal (as under `env -i`), TMPDIR on another file system, hostile
// (Turkish locale, far-away time zone, unusable TMPDIR/HOME, aggressive GC).
func envVariant(k int, extra ...string) []string {
	var env []string
	switch k % 4 {
	case 0:
		env = os.Environ()
	case 1:
		env = []string{"PATH=" + os.Getenv("PATH")}
	case 3:
		// temporary files would land on another file system than the working directory
		td := fmt.Sprintf("/dev/shm/verif-tmp-%d", os.Getpid())
		_ = os.MkdirAll(td, 0o755)
		env = append(os.Environ(), "TMPDIR="+td)
	case 2:
		env = append(os.Environ(), "LANG=tr_TR.UTF-8", "LC_ALL=tr_TR.UTF-8", "LANGUAGE=tr", "TZ=Pacific/Kiritimati", "TMPDIR=/nonexistent/tmp", "HOME=/nonexistent/home", "GOGC=1", "COLUMNS=1", "NO_COLOR=1", "DEBUG=1", "VERBOSE=1", "CI=true")
	}
	return append(env, extra...)
}

// buildTool builds a tool of the repository into dir.
func buildTool(name, dir string, race bool) (string, error) {
	out := filepath.Join(dir, name)
	if race {
		out += "-race"
	}
	args := []string{"build", "-o", out}
	if race {
		args = append(args, "-race")
	}
	args = append(args, "./tools/"+name)
	cmd := exec.Command("go", args...)
	cmd.Dir = repoDir()
	cmd.Env = goEnv()
	if b, err := cmd.CombinedOutput(); err != nil {
		return "", fmt.Errorf("go build %s: %v\n%s", name, err, b)
	}
	return out, nil
}

// ---------------- label-driven column oracle ----------------

var reParam = regexp.MustCompile(`([mkd])=(\d+)`)

type colSpec struct {
	Comp  string // P Q P1 Q1 P2 Q2
	Test  string
	Param int
	Fwd   bool
}

func parseLabel(label string) (colSpec, error) {
	i := strings.Index(label, "]")
	if i < 0 {
		return colSpec{}, fmt.Errorf("label %q has no [n] prefix", label)
	}
	rest := strings.TrimSpace(label[i+1:])
	f := strings.Fields(rest)
	if len(f) < 2 {
		return colSpec{}, fmt.Errorf("label %q too short", label)
	}
	cs := colSpec{Comp: f[0], Param: -1}
	name := strings.Join(f[1:], " ")
	for _, m := range reParam.FindAllStringSubmatch(rest, -1) {
		v, _ := strconv.Atoi(m[2])
		cs.Param = v
	}
	switch {
	case strings.Contains(name, "单比特频数"):
		cs.Test = "mono"
	case strings.Contains(name, "块内频数"):
		cs.Test = "block"
	case strings.Contains(name, "扑克"):
		cs.Test = "poker"
	case strings.Contains(name, "重叠子序列"):
		cs.Test = "overlap"
	case strings.Contains(name, "游程总数"):
		cs.Test = "runs"
	case strings.Contains(name, "游程分布"):
		cs.Test = "runsDist"
	case strings.Contains(name, "“1”游程"):
		cs.Test = "longest1"
	case strings.Contains(name, "“0”游程"):
		cs.Test = "longest0"
	case strings.Contains(name, "二元推导"):
		cs.Test = "binder"
	case strings.Contains(name, "自相关"):
		cs.Test = "autocorr"
	case strings.Contains(name, "矩阵秩"):
		cs.Test = "rank"
	case strings.Contains(name, "累加和"):
		cs.Test = "cusum"
		if strings.Contains(name, "前向") {
			cs.Fwd = true
		} else if !strings.Contains(name, "后向") {
			return cs, fmt.Errorf("label %q: cumulative sums without direction", label)
		}
	case strings.Contains(name, "近似熵"):
		cs.Test = "apen"
	case strings.Contains(name, "线性复杂度"), strings.Contains(name, "线型复杂度"):
		cs.Test = "lc"
	case strings.Contains(name, "Maurer"), strings.Contains(name, "通用统计"):
		cs.Test = "maurer"
		cs.Param = -1
	case strings.Contains(name, "离散傅里叶"):
		cs.Test = "dft"
	default:
		return cs, fmt.Errorf("unrecognised label %q", label)
	}
	switch cs.Test {
	case "block", "poker", "overlap", "binder", "autocorr", "apen", "lc":
		if cs.Param < 0 {
			return cs, fmt.Errorf("label %q names no parameter", label)
		}
	}
	okComp := map[string]bool{"P": true, "Q": true}
	if cs.Test == "overlap" {
		okComp = map[string]bool{"P1": true, "Q1": true, "P2": true, "Q2": true}
	}
	if !okComp[cs.Comp] {
		return cs, fmt.Errorf("label %q: component %q not valid for this test", label, cs.Comp)
	}
	return cs, nil
}

type fileOracle struct {
	mu    sync.Mutex
	data  []byte
	bits  []bool
	cache map[string][]float64
}

var fileOracles sync.Map // path -> *fileOracle

func oracleFor(path string) (*fileOracle, error) {
	if v, ok := fileOracles.Load(path); ok {
		return v.(*fileOracle), nil
	}
	data, err := os.ReadFile(path)
	if err != nil {
		return nil, err
	}
	fo := &fileOracle{data: data, bits: gen.Bools(gen.Unpack(data)), cache: map[string][]float64{}}
	v, _ := fileOracles.LoadOrStore(path, fo)
	return v.(*fileOracle), nil
}

// value returns the library's value for the column on this file.
func (fo *fileOracle) value(cs colSpec) (val float64, err error) {
	key := fmt.Sprintf("%s/%d/%v", cs.Test, cs.Param, cs.Fwd)
	fo.mu.Lock()
	defer fo.mu.Unlock()
	v, ok := fo.cache[key]
	if !ok {
		if p, m := guard(func() {
			bits := fo.bits
			pq := func(p, q float64) []float64 { return []float64{p, q} }
			switch cs.Test {
			case "mono":
				v = pq(R.MonoBitFrequencyTest(bits))
			case "block":
				v = pq(R.FrequencyWithinBlockProto(bits, cs.Param))
			case "poker":
				v = pq(R.PokerProto(bits, cs.Param))
			case "overlap":
				p1, p2, q1, q2 := R.OverlappingTemplateMatchingProto(bits, cs.Param)
				v = []float64{p1, q1, p2, q2}
			case "runs":
				v = pq(R.RunsTest(bits))
			case "runsDist":
				v = pq(R.RunsDistributionTest(bits))
			case "longest1":
				v = pq(R.LongestRunOfOnesInABlockProto(bits, true))
			case "longest0":
				v = pq(R.LongestRunOfOnesInABlockProto(bits, false))
			case "binder":
				v = pq(R.BinaryDerivativeProto(bits, cs.Param))
			case "autocorr":
				v = pq(R.AutocorrelationProto(bits, cs.Param))
			case "rank":
				v = pq(R.MatrixRankProto(bits, 32, 32))
			case "cusum":
				v = pq(R.CumulativeTest(bits, cs.Fwd))
			case "apen":
				v = pq(R.ApproximateEntropyProto(bits, cs.Param))
			case "lc":
				v = pq(R.LinearComplexityProto(bits, cs.Param))
			case "maurer":
				v = pq(R.MaurerUniversalTest(bits))
			case "dft":
				v = pq(R.DiscreteFourierTransformTest(bits))
			}
		}); p {
			return 0, fmt.Errorf("library panicked for %s: %s", key, clip(m, 200))
		}
		fo.cache[key] = v
	}
	switch cs.Comp {
	case "P", "P1":
		return v[0], nil
	case "Q", "Q1":
		return v[1], nil
	case "P2":
		return v[2], nil
	case "Q2":
		return v[3], nil
	}
	return 0, fmt.Errorf("component %q", cs.Comp)
}

// reportProblem is one refuting observation in a report.
type reportProblem struct {
	Key string
	Msg string
}

// checkReport decides the C13 clauses on one report.
// files: base name -> candidate paths; nominalBits: the files' size when it is the scale's nominal one (the longest-run m label is asserted then), else 0.
func checkReport(c *ev.Ctx, report, wantHeader string, files map[string][]string, nominalBits int) (probs []reportProblem, cols, rows int) {
	lines := strings.Split(report, "\n")
	if len(lines) > 0 && lines[len(lines)-1] == "" {
		lines = lines[:len(lines)-1]
	}
	if len(lines) == 0 {
		return []reportProblem{{"empty", "the report is empty"}}, 0, 0
	}
	hdr := lines[0]
	if wantHeader != "" && hdr+"\n" != wantHeader {
		probs = append(probs, reportProblem{"header", fmt.Sprintf("first line is not the scale's header: %q", clip(hdr, 120))})
		return probs, 0, 0
	}
	labels := strings.Split(hdr, ",")
	specs := make([]colSpec, len(labels))
	for i := 1; i < len(labels); i++ {
		cs, err := parseLabel(labels[i])
		if err != nil {
			probs = append(probs, reportProblem{fmt.Sprintf("label:col%d", i), err.Error()})
		}
		specs[i] = cs
		if (cs.Test == "longest1" || cs.Test == "longest0") && nominalBits > 0 && cs.Param > 0 && cs.Param != lrBlockLen(nominalBits) {
			probs = append(probs, reportProblem{fmt.Sprintf("label:col%d", i), fmt.Sprintf("header says longest-run block length m=%d, the library uses %d at %d bits", cs.Param, lrBlockLen(nominalBits), nominalBits)})
		}
	}
	cols = len(labels) - 1
	seen := map[string]int{}
	for _, ln := range lines[1:] {
		f := strings.Split(ln, ",")
		name := f[0]
		seen[name]++
		rows++
		cands, ok := files[name]
		if !ok {
			probs = append(probs, reportProblem{"row:unexpected:" + name, fmt.Sprintf("row for %q which is not a sample file of the input directory", clip(name, 80))})
			continue
		}
		if len(f) != len(labels) {
			probs = append(probs, reportProblem{"row:columns:" + name, fmt.Sprintf("row %q has %d value columns, header has %d", name, len(f)-1, len(labels)-1)})
			continue
		}
		// with duplicate base names try each candidate file; the row must match one of them entirely
		var best []reportProblem
		for ci, path := range cands {
			fo, err := oracleFor(path)
			if err != nil {
				continue
			}
			var cur []reportProblem
			for i := 1; i < len(labels); i++ {
				if specs[i].Test == "" {
					continue
				}
				got, err := strconv.ParseFloat(strings.TrimSpace(f[i]), 64)
				if err != nil {
					cur = append(cur, reportProblem{fmt.Sprintf("value:col%d", i), fmt.Sprintf("row %q column %d %q is not a number: %q", name, i, labels[i], f[i])})
					continue
				}
				want, err := fo.value(specs[i])
				if err != nil {
					cur = append(cur, reportProblem{fmt.Sprintf("value:col%d", i), err.Error()})
					continue
				}
				c.Count("report_values_compared_with_library", 1)
				if math.IsNaN(want) != math.IsNaN(got) || math.Abs(got-want) > 0.5e-6+1e-9 {
					cur = append(cur, reportProblem{fmt.Sprintf("value:col%d:%s", i, strings.TrimSpace(labels[i])), fmt.Sprintf("row %q column %d %q: report %s, library %.6f", name, i, strings.TrimSpace(labels[i]), strings.TrimSpace(f[i]), want)})
				}
			}
			if ci == 0 || len(cur) < len(best) {
				best = cur
			}
			if len(cur) == 0 {
				break
			}
		}
		probs = append(probs, best...)
	}
	for name, paths := range files {
		if seen[name] < len(paths) {
			probs = append(probs, reportProblem{"row:missing:" + name, fmt.Sprintf("sample file %q has %d row(s), expected %d", name, seen[name], len(paths))})
		} else if seen[name] > len(paths) {
			probs = append(probs, reportProblem{"row:duplicate:" + name, fmt.Sprintf("sample file %q has %d rows, expected %d", name, seen[name], len(paths))})
		}
	}
	return probs, cols, rows
}

// ---------------- sample directories ----------------

type sampleDir struct {
	Root  string
	Files map[string][]string // base -> paths (sample files only)
	Count int
}

// makeSampleDir creates s sample files of nbytes each (nested dirs, .bin/.dat, decoys).
func makeSampleDir(root string, s, nbytes int, seed uint64, lfsrOnly bool, dupNames bool) sampleDir {
	sd := sampleDir{Root: root, Files: map[string][]string{}}
	_ = os.MkdirAll(root, 0o755)
	r := gen.NewRng(seed)
	subs := []string{"", "a", "a/b", "c.d", "deep/er/still"}
	if dupNames {
		// nested directories whose own names carry a sample suffix: they are directories, not samples
		subs = append(subs, "archive.bin", "old.dat/inner")
	}
	for i := 0; i < s; i++ {
		sub := subs[0]
		if s > 1 {
			sub = subs[r.Intn(len(subs))]
		}
		ext := ".bin"
		if i%3 == 2 {
			ext = ".dat"
		}
		name := fmt.Sprintf("sample_%03d%s", i, ext)
		switch {
		case s >= 7 && i == 3:
			name = "sample 003 (copy)" + ext
		case s >= 7 && i == 5:
			name = "données_%d_100%" + ext
		case s >= 7 && i == 6:
			name = "样本.six" + ext
		case s >= 7 && i == 2:
			name = ".hidden" + ext
		case s >= 7 && i == 4:
			name = "caf\xe9_latin1" + ext // bytes that are not valid UTF-8 (file names are byte strings)
		case s >= 7 && i == 1:
			name = "\xd1\xf9\xb1\xbe_gbk" + ext
		}
		if dupNames && i%5 == 4 && i > 0 {
			name = fmt.Sprintf("sample_%03d%s", i-1, map[bool]string{true: ".dat", false: ".bin"}[(i-1)%3 == 2])
			sub = "dup" + fmt.Sprint(i)
		}
		dir := filepath.Join(root, sub)
		_ = os.MkdirAll(dir, 0o755)
		var data []byte
		kind := i % 6
		if lfsrOnly {
			kind = 1
		}
		switch kind {
		case 0, 4:
			data = gen.NewRng(gen.Mix(seed, uint64(i))).Bytes(nbytes)
		case 1:
			data = lfsr64Bytes(gen.Mix(seed, uint64(i), 3), nbytes)
		case 2:
			data = gen.Pack(gen.Seq{Fam: "bias", N: nbytes * 8, A: 480 + r.Intn(40), Seed: gen.Mix(seed, uint64(i), 4)}.Bits())
		case 3:
			data = gen.Pack(gen.Seq{Fam: "markov", N: nbytes * 8, Seed: gen.Mix(seed, uint64(i), 5)}.Bits())
		case 5:
			data = gen.Pack(gen.Seq{Fam: "byteperiodic", N: nbytes * 8, A: 1 + r.Intn(64), Seed: gen.Mix(seed, uint64(i), 6)}.Bits())
		}
		p := filepath.Join(dir, name)
		_ = os.WriteFile(p, data, 0o644)
		sd.Files[name] = append(sd.Files[name], p)
		sd.Count++
	}
	// decoys: must not produce rows
	_ = os.WriteFile(filepath.Join(root, "notes.txt"), []byte("not a sample"), 0o644)
	_ = os.WriteFile(filepath.Join(root, "sample_bin"), gen.NewRng(1).Bytes(nbytes), 0o644)
	_ = os.WriteFile(filepath.Join(root, "README.bin.txt"), gen.NewRng(2).Bytes(nbytes), 0o644)
	if nbytes <= 125000 {
		// non-sample files LARGER than a sample: an older report left in the directory, and a capture log whose
		// size happens to be that of another supported scale (the scale is that of the samples, not of the clutter)
		_ = os.WriteFile(filepath.Join(root, "RandomnessTestReport.csv"), []byte(strings.Repeat("old.bin, 0.500000, 0.500000\n", (3*nbytes+17)/28+1)), 0o644)
		other := 125000
		if nbytes == 125000 {
			other = 12500000 / 4 // larger, not a scale
		}
		if s >= 7 {
			_ = os.MkdirAll(filepath.Join(root, "logs"), 0o755)
			_ = os.WriteFile(filepath.Join(root, "logs", "capture.log"), gen.NewRng(3).Bytes(other), 0o644)
		}
	}
	return sd
}

func straceOK() bool {
	cmd := exec.Command("strace", "-f", "-o", "/dev/null", "-e", "trace=write", "-e", "inject=write:delay_exit=1000:when=1+", "true")
	return cmd.Run() == nil
}

// ---------------- C13 ----------------

type c13Run struct {
	Scale    string   `json:"scale"`
	S        int      `json:"s"`
	N        int      `json:"n_workers"`
	Procs    int      `json:"gomaxprocs"`
	Race     bool     `json:"race_build"`
	Strace   bool     `json:"strace_write_delay"`
	Driver   string   `json:"driver"` // binary | in-package
	DirSeed  uint64   `json:"dir_seed"`
	NBytes   int      `json:"file_bytes,omitempty"`
	Dup      bool     `json:"duplicate_names_and_suffix_dirs,omitempty"`
	NoFile   int      `json:"rlimit_nofile,omitempty"`
	Problems []string `json:"problems,omitempty"`
}

func runC13(c *ev.Ctx) {
	defer os.RemoveAll(fmt.Sprintf("/dev/shm/verif-tmp-%d", os.Getpid()))
	c.Rule = "each case = one report produced by the real tool (built binary on a generated directory, or the three worker functions driven in-package through real channels and the real resultWriter): process terminates with exit 0; first line equals the scale's header; multiset of row names == multiset of .bin/.dat base names (decoys get no row, duplicates by name allowed); every row has the header's column count; every value equals (to %0.6f) the library's P/Q for the test and parameter parsed from that column's header label. Varied: s in {1,2,7,40}, nested dirs, directories whose own names end in .bin/.dat, .dat, decoys, duplicate base names, file names with spaces / % / unicode / leading dot, -n in {1,2,3,8,16,64}, flag order and spelling, relative paths, a report path that already holds an older longer file, GOMAXPROCS 1/4/16, four process environments (inherited, minimal, Turkish locale + unusable TMPDIR/HOME + GOGC=1, TMPDIR on another file system), strace-delayed writes to the report, -race build. non-trivial = a report with >= 1 row whose values were all compared; distinct = distinct (driver, scale, directory seed, -n, GOMAXPROCS, race, strace)"
	c.Assumptions = []string{"the library's own functions are the reference for the values (C01-C05 decide whether those are right)", "header labels are parsed by test name and m=/k=/d= parameter"}
	seed := uint64(c.Seed)
	work := os.Getenv("VERIF_WORK")
	bin, err := buildTool("rddetector", work, false)
	if err != nil {
		c.Inconclusive(err.Error())
		return
	}
	binRace, err := buildTool("rddetector", work, true)
	if err != nil {
		c.Inconclusive(err.Error())
		return
	}
	haveStrace := straceOK()
	c.Note("strace_injection_available", haveStrace)

	// ---- driver 1: in-package through the overlay ----
	headers := map[string]string{}
	nominal := map[string]int{"2E4": 20000, "1E6": 1000000, "1E8": 100000000}
	{
		ovDir := filepath.Join(work, "ov")
		_ = os.MkdirAll(ovDir, 0o755)
		ovJSON := filepath.Join(ovDir, "overlay.json")
		ov := map[string]map[string]string{"Replace": {filepath.Join(repoDir(), "tools/rddetector/zz_verif_test.go"): filepath.Join(ev.Root, "overlay/rddetector/zz_verif_test.go")}}
		b, _ := json.Marshal(ov)
		_ = os.WriteFile(ovJSON, b, 0o644)
		type job struct {
			Scale   string   `json:"scale"`
			Files   []string `json:"files"` // hex-encoded: file names are byte strings, JSON strings are not
			Workers int      `json:"workers"`
			Out     string   `json:"out"`
		}
		mkJobs := func(tag string, race bool) ([]job, []sampleDir) {
			var jobs []job
			var dirs []sampleDir
			add := func(scale string, s, nbytes, workers int, lfsr bool) {
				d := makeSampleDir(filepath.Join(ovDir, fmt.Sprintf("%s-%s-%d", tag, scale, len(jobs))), s, nbytes, gen.Mix(seed, 13, uint64(len(jobs)), uint64(len(tag))), lfsr, false)
				var fl []string
				for _, ps := range d.Files {
					fl = append(fl, ps...)
				}
				sort.Strings(fl)
				for k := range fl {
					fl[k] = hex.EncodeToString([]byte(fl[k]))
				}
				jobs = append(jobs, job{scale, fl, workers, filepath.Join(ovDir, fmt.Sprintf("%s-%s-%d.csv", tag, scale, len(jobs)))})
				dirs = append(dirs, d)
			}
			if race {
				add("2E4", 6, 2500, 3, false)
				add("1E6", 3, 2048, 3, true)
				add("1E8", 3, 12500, 2, true)
			} else {
				add("2E4", 12, 2500, 4, false)
				add("2E4", 5, 2500, 1, false)
				add("1E6", 6, 16000, 3, false)
				add("1E6", 2, 125000, 2, false)
				add("1E8", 4, 16000, 2, true)
				add("1E8", 2, 125000, 2, true)
			}
			return jobs, dirs
		}
		runOverlay := func(tag string, race bool) {
			jobs, dirs := mkJobs(tag, race)
			spec := filepath.Join(ovDir, tag+"-spec.json")
			b, _ := json.Marshal(jobs)
			_ = os.WriteFile(spec, b, 0o644)
			hf := filepath.Join(ovDir, tag+"-headers.json")
			args := []string{"go", "test", "-tags", "verif", "-vet=off", "-count=1", "-overlay", ovJSON, "-run", "^TestVerifDrive$"}
			if race {
				args = append(args, "-race")
			}
			args = append(args, "./tools/rddetector")
			env := append(goEnv(), "VERIF_C13_SPEC="+spec, "VERIF_C13_HEADERS="+hf)
			if race {
				env = append(env, "GORACE=halt_on_error=0 log_path="+filepath.Join(work, "race-ov-"+tag))
			}
			pr := runProc(repoDir(), env, 25*time.Minute, args...)
			if pr.Status == "timeout" {
				c.Inconclusive("in-package driver (" + tag + ") watchdog fired")
				return
			}
			if pr.Status == "deadlock" || pr.Exit != 0 {
				if strings.Contains(pr.Stdout+pr.Stderr, "[build failed]") || strings.Contains(pr.Stdout+pr.Stderr, "undefined:") {
					c.Inconclusive("in-package driver does not build against this tree (names changed?): " + tailStr(pr.Stdout+pr.Stderr, 600))
					return
				}
				c.Violation("in-package:"+tag+":"+pr.Status, "worker functions did not complete: "+tailStr(pr.Stdout+pr.Stderr, 1500), "c13", c13Run{Driver: "in-package", Race: race})
				return
			}
			if hb, err := os.ReadFile(hf); err == nil {
				_ = json.Unmarshal(hb, &headers)
			}
			for i, j := range jobs {
				rep, err := os.ReadFile(j.Out)
				run := c13Run{Scale: j.Scale, S: dirs[i].Count, N: j.Workers, Race: race, Driver: "in-package", DirSeed: uint64(i)}
				if err != nil {
					c.Violation(fmt.Sprintf("in-package:%s:%s:no-report", tag, j.Scale), "no report written", "c13", run)
					continue
				}
				// the longest-run m label is only asserted when the files have the scale's nominal size
				nb := nominal[j.Scale]
				for _, ps := range dirs[i].Files {
					if fi, err := os.Stat(ps[0]); err == nil && int(fi.Size())*8 != nb {
						nb = 0
					}
					break
				}
				probs, cols, rows := checkReport(c, string(rep), headers[j.Scale], dirs[i].Files, nb)
				c.Eval(ev.HashStr(fmt.Sprintf("ov|%s|%d|%v", j.Scale, i, race)), rows > 0 && cols > 0)
				c.Count("reports_checked_in_package", 1)
				c.Count("rows_checked", int64(rows))
				c.Count("columns_per_report_"+j.Scale, int64(cols))
				for _, p := range probs {
					run.Problems = append(run.Problems, p.Msg)
				}
				for _, p := range probs {
					c.Violation(fmt.Sprintf("worker_%s:%s", j.Scale, p.Key), p.Msg, "c13", run)
				}
				if len(probs) == 0 && i == 0 && !race {
					c.Sample(map[string]interface{}{"driver": "in-package", "scale": j.Scale, "files": rows, "workers": j.Workers, "value_columns": cols, "mismatches": 0})
				}
			}
		}
		var wg sync.WaitGroup
		wg.Add(2)
		go func() { defer wg.Done(); runOverlay("plain", false) }()
		go func() { defer wg.Done(); runOverlay("race", true) }()
		wg.Wait()
	}

	// ---- driver 2: the built binary ----
	type binCase struct {
		scale  string
		s      int
		nbytes int
		n      int
		procs  int
		race   bool
		strace bool
		dup    bool
		nofile int // > 0: open-file limit of the process (prlimit)
	}
	var cases []binCase
	ns := []int{1, 2, 3, 8, 16, 64}
	ss := []int{1, 2, 7, 40}
	k := 0
	for _, s := range ss {
		for _, n := range ns {
			k++
			if !c.Thorough() && (k%2 == 0) && s != 40 {
				continue
			}
			cases = append(cases, binCase{scale: "2E4", s: s, nbytes: 2500, n: n, procs: []int{1, 4, 16}[k%3], race: k%5 == 0, strace: haveStrace && k%4 == 1, dup: k%3 == 0})
		}
	}
	cases = append(cases, binCase{scale: "1E6", s: 4, nbytes: 125000, n: 4, procs: 16})
	if _, err := exec.LookPath("prlimit"); err == nil {
		// far more sample files than the process may hold open at once
		cases = append(cases, binCase{scale: "2E4", s: 150, nbytes: 2500, n: 16, procs: 16, nofile: 48})
	}
	if c.Thorough() {
		cases = append(cases, binCase{scale: "1E6", s: 40, nbytes: 125000, n: 16, procs: 16}, binCase{scale: "1E6", s: 5, nbytes: 125000, n: 2, procs: 2, race: true})
		cases = append(cases, binCase{scale: "1E8", s: 2, nbytes: 12500000, n: 2, procs: 16})
	}
	var mu sync.Mutex
	heavyPar := 6
	parallelN(heavyPar, len(cases), func(i int) {
		bc := cases[i]
		root := filepath.Join(work, fmt.Sprintf("bin-%d", i))
		d := makeSampleDir(filepath.Join(root, "in"), bc.s, bc.nbytes, gen.Mix(seed, 131, uint64(i)), bc.scale == "1E8", bc.dup)
		report := filepath.Join(root, "out", "report.csv")
		if i%3 != 0 {
			// the report path already holds an older, longer report (or something else entirely)
			_ = os.MkdirAll(filepath.Dir(report), 0o755)
			old := strings.Repeat("old_sample.bin, 0.500000, 0.500000\n", 400)
			if i%3 == 2 {
				old = headers[bc.scale] + strings.Repeat("stale_row.bin"+strings.Repeat(", 0.123456", 60)+"\n", 300)
			}
			_ = os.WriteFile(report, []byte(old), 0o644)
		}
		exe := bin
		if bc.race {
			exe = binRace
		}
		argv := []string{exe, "-i", d.Root, "-o", report, "-n", fmt.Sprint(bc.n)}
		switch i % 4 { // flag order and spelling must not matter
		case 1:
			argv = []string{exe, "-n", fmt.Sprint(bc.n), "-o", report, "-i", d.Root + "/"}
		case 2:
			argv = []string{exe, "--o=" + report, "--n=" + fmt.Sprint(bc.n), "--i=" + d.Root}
		case 3:
			rel, _ := filepath.Rel(root, d.Root)
			argv = []string{exe, "-o", "out/report.csv", "-i", "./" + rel + "/.", "-n", fmt.Sprint(bc.n)}
		}
		if bc.strace {
			argv = append([]string{"strace", "-f", "-o", "/dev/null", "-e", "trace=write", "-P", report, "-e", "inject=write:delay_exit=3000:when=2+"}, argv...)
		}
		if bc.nofile > 0 {
			argv = append([]string{"prlimit", fmt.Sprintf("--nofile=%d:%d", bc.nofile, bc.nofile)}, argv...)
		}
		env := envVariant(i/2, fmt.Sprintf("GOMAXPROCS=%d", bc.procs), "GOTRACEBACK=all")
		if bc.race {
			env = append(env, "GORACE=halt_on_error=0 log_path="+filepath.Join(work, fmt.Sprintf("race-bin-%d", i)))
		}
		limit := 2 * time.Minute // a 2E4 run takes well under 10 s even with strace delays or -race
		if bc.scale != "2E4" {
			limit = 45 * time.Minute
		}
		pr := runProc(root, env, limit, argv...)
		run := c13Run{Scale: bc.scale, S: bc.s, N: bc.n, Procs: bc.procs, Race: bc.race, Strace: bc.strace, Driver: "binary", DirSeed: gen.Mix(seed, 131, uint64(i)), NBytes: bc.nbytes, Dup: bc.dup, NoFile: bc.nofile}
		key := fmt.Sprintf("binary:%s:s=%d:n=%d:procs=%d:race=%v:strace=%v", bc.scale, bc.s, bc.n, bc.procs, bc.race, bc.strace)
		mu.Lock()
		defer mu.Unlock()
		defer os.RemoveAll(root)
		c.Count("binary_runs", 1)
		if bc.strace {
			c.Count("binary_runs_with_delayed_report_writes", 1)
		}
		if bc.race {
			c.Count("binary_runs_race_build", 1)
		}
		if pr.Status == "timeout" {
			c.Eval(ev.HashStr(key), false)
			c.Inconclusive(key + ": watchdog fired")
			return
		}
		if pr.Status != "exited" || pr.Exit != 0 {
			c.Eval(ev.HashStr(key), true)
			c.Violation(key+":"+pr.Status, fmt.Sprintf("rddetector did not terminate normally (status %s, exit %d): %s", pr.Status, pr.Exit, tailStr(pr.Stderr, 1500)), "c13", run)
			return
		}
		rep, err := os.ReadFile(report)
		if err != nil {
			c.Eval(ev.HashStr(key), true)
			c.Violation(key+":no-report", "no report file was written: "+tailStr(pr.Stderr, 600), "c13", run)
			return
		}
		// start-up line: s and bits
		if m := regexp.MustCompile(`s = (\d+) .*bits = (\d+)`).FindStringSubmatch(pr.Stderr); m != nil {
			if m[1] != fmt.Sprint(d.Count) || m[2] != fmt.Sprint(bc.nbytes*8) {
				c.Violation(key+":startup", fmt.Sprintf("tool announced s=%s bits=%s for %d files of %d bits", m[1], m[2], d.Count, bc.nbytes*8), "c13", run)
			}
		}
		probs, cols, rows := checkReport(c, string(rep), headers[bc.scale], d.Files, bc.nbytes*8)
		c.Eval(ev.HashStr(key), rows > 0 && cols > 0)
		c.Count("reports_checked_binary", 1)
		c.Count("rows_checked", int64(rows))
		for _, p := range probs {
			run.Problems = append(run.Problems, p.Msg)
		}
		for _, p := range probs {
			c.Violation(fmt.Sprintf("binary:%s:%s", bc.scale, p.Key), p.Msg+" ["+key+"]", "c13", run)
		}
		if len(probs) == 0 && c.NSamples() < 5 {
			c.Sample(map[string]interface{}{"driver": "binary", "scale": bc.scale, "files": d.Count, "-n": bc.n, "GOMAXPROCS": bc.procs, "race_build": bc.race, "strace_write_delay": bc.strace, "rows": rows, "value_columns": cols, "duplicate_base_names": bc.dup, "wall_ms": pr.Duration.Milliseconds()})
		}
	})
	total, distinct, sample := raceReports(work)
	c.Count("race_detector_reports", int64(total))
	for k, n := range distinct {
		c.Violation("race:"+k, fmt.Sprintf("%d DATA RACE report(s), first:\n%s", n, sample), "race", k)
	}
	if len(headers) != 3 {
		c.Inconclusive("headers of the three scales could not be obtained from the in-package driver")
	}
}

// ---------------- C20 ----------------

type c20Case struct {
	S      int    `json:"s"`
	N      int    `json:"n_bits"`
	Out    string `json:"o"` // "" = default
	Pre    bool   `json:"preexisting_files"`
	CPUs   int    `json:"taskset_cpus"`
	Procs  int    `json:"gomaxprocs"`
	Race   bool   `json:"race_build"`
	Strace bool   `json:"strace_delay"`
	Accept bool   `json:"run_rddetector"`
	PrevN  int    `json:"previous_run_n_bits,omitempty"` // > 0: rdgen was run before in the same directory with this sample length
	PrevS  int    `json:"previous_run_s,omitempty"`
	NoFile int    `json:"rlimit_nofile,omitempty"` // > 0: run under this open-file limit (prlimit)
}

// evalC20 runs one rdgen configuration in a fresh scratch directory and checks the post-state.
func evalC20(cs c20Case, i int, work, bin, binRace, det string) (probs []string, undecided bool, pr procResult, key, wantRel string) {
	cwd := filepath.Join(work, fmt.Sprintf("gen-%d", i))
	_ = os.MkdirAll(cwd, 0o755)
	defer os.RemoveAll(cwd)
	wantDir := filepath.Join(cwd, "target", "data")
	argv := []string{}
	oArg := cs.Out
	switch cs.Out {
	case "":
	case "ABS":
		oArg = filepath.Join(cwd, "abs", "olute")
		wantDir = oArg
	case "trail/":
		wantDir = filepath.Join(cwd, "trail")
	case "SYMREL", "SYMABS":
		// -o names a symbolic link to a directory (relative / absolute target), not in the working directory
		_ = os.MkdirAll(filepath.Join(cwd, "disk", "store"), 0o755)
		target := "store"
		if cs.Out == "SYMABS" {
			target = filepath.Join(cwd, "disk", "store")
		}
		_ = os.Symlink(target, filepath.Join(cwd, "disk", "out"))
		oArg = filepath.Join("disk", "out")
		wantDir = filepath.Join(cwd, "disk", "store")
	default:
		wantDir = filepath.Join(cwd, filepath.Clean(cs.Out))
	}
	pre := map[string][]byte{}
	if cs.Pre {
		_ = os.MkdirAll(wantDir, 0o755)
		pre["keep.txt"] = []byte("unrelated")
		pre["random_old.bin.bak"] = gen.NewRng(9).Bytes(33)
		pre["random7.bin.bak"] = []byte{1, 2, 3}
		for n, b := range pre {
			_ = os.WriteFile(filepath.Join(wantDir, n), b, 0o644)
		}
	}
	exe := bin
	if cs.Race {
		exe = binRace
	}
	argv = append(argv, exe, "-s", fmt.Sprint(cs.S), "-n", fmt.Sprint(cs.N))
	if cs.Out != "" {
		argv = append(argv, "-o="+oArg)
	}
	if cs.Strace {
		argv = append([]string{"strace", "-f", "-o", "/dev/null", "-e", "trace=write,openat", "-e", "inject=write:delay_exit=2000:when=3+", "-e", "inject=openat:delay_enter=1500:when=20+"}, argv...)
	}
	if cs.CPUs > 0 {
		argv = append([]string{"taskset", "-c", fmt.Sprintf("0-%d", cs.CPUs-1)}, argv...)
	}
	if cs.NoFile > 0 {
		argv = append([]string{"prlimit", fmt.Sprintf("--nofile=%d:%d", cs.NoFile, cs.NoFile)}, argv...)
	}
	env := envVariant(i, "GOTRACEBACK=all")
	if cs.Procs > 0 {
		env = append(env, fmt.Sprintf("GOMAXPROCS=%d", cs.Procs))
	}
	if cs.Race {
		env = append(env, "GORACE=halt_on_error=0 log_path="+filepath.Join(work, fmt.Sprintf("race-gen-%d", i)))
	}
	if cs.PrevN > 0 {
		// the earlier run: same command line with the previous sample length
		prev := append([]string(nil), argv...)
		for j := range prev {
			if prev[j] == "-n" {
				prev[j+1] = fmt.Sprint(cs.PrevN)
			}
			if prev[j] == "-s" {
				prev[j+1] = fmt.Sprint(cs.PrevS)
			}
		}
		runProc(cwd, env, 10*time.Minute, prev...)
	}
	pr = runProc(cwd, env, 10*time.Minute, argv...)
	key = fmt.Sprintf("rdgen:s=%d:n=%d:o=%q:cpus=%d:procs=%d:race=%v:strace=%v:prev_n=%d", cs.S, cs.N, cs.Out, cs.CPUs, cs.Procs, cs.Race, cs.Strace, cs.PrevN)
	if cs.NoFile > 0 {
		key += fmt.Sprintf(":nofile=%d", cs.NoFile)
	}
	if pr.Status == "timeout" {
		undecided = true
	} else if pr.Status != "exited" || pr.Exit != 0 {
		probs = append(probs, fmt.Sprintf("rdgen did not terminate normally (%s, exit %d): %s", pr.Status, pr.Exit, tailStr(pr.Stderr, 800)))
	} else {
		// post-state
		found := map[string]int64{}
		contents := map[string]string{}
		_ = filepath.Walk(cwd, func(p string, fi os.FileInfo, err error) error {
			if err != nil || fi.IsDir() || fi.Mode()&os.ModeSymlink != 0 {
				return nil // (the only symbolic link is the one this harness created for the SYM* shapes)
			}
			rel, _ := filepath.Rel(wantDir, p)
			if strings.HasPrefix(rel, "..") {
				probs = append(probs, fmt.Sprintf("file created outside the requested directory: %s", strings.TrimPrefix(p, cwd+"/")))
				return nil
			}
			found[rel] = fi.Size()
			return nil
		})
		if len(probs) > 3 {
			probs = append(probs[:3], fmt.Sprintf("... and %d more files outside", len(probs)-3))
		}
		for n, b := range pre {
			got, err := os.ReadFile(filepath.Join(wantDir, n))
			if err != nil || !bytes.Equal(got, b) {
				probs = append(probs, "pre-existing file "+n+" was changed or removed")
			}
			delete(found, n)
		}
		for j := 0; j < cs.S; j++ {
			name := fmt.Sprintf("random%d.bin", j)
			sz, ok := found[name]
			if !ok {
				probs = append(probs, fmt.Sprintf("%s missing from %s", name, strings.TrimPrefix(wantDir, cwd+"/")))
				if len(probs) > 6 {
					break
				}
				continue
			}
			if sz != int64(cs.N/8) {
				probs = append(probs, fmt.Sprintf("%s has %d bytes, want %d", name, sz, cs.N/8))
			}
			delete(found, name)
			if cs.N >= 256 && cs.N <= 1000000 {
				b, _ := os.ReadFile(filepath.Join(wantDir, name))
				if other, dup := contents[string(b)]; dup {
					probs = append(probs, fmt.Sprintf("%s and %s have identical contents", name, other))
				}
				contents[string(b)] = name
			}
		}
		for n := range found {
			probs = append(probs, "unexpected file in the output directory: "+n)
			if len(probs) > 8 {
				break
			}
		}
		// acceptance by rddetector
		if cs.Accept && len(probs) == 0 {
			rep := filepath.Join(cwd, "accept.csv")
			if cs.N == 100000000 {
				// only until the start-up line is printed
				cmd := exec.Command(det, "-i", wantDir, "-o", rep, "-n", "1")
				var se bytes.Buffer
				cmd.Stderr = &se
				_ = cmd.Start()
				deadline := time.Now().Add(5 * time.Minute)
				for time.Now().Before(deadline) && !strings.Contains(se.String(), "bits =") {
					time.Sleep(100 * time.Millisecond)
				}
				_ = cmd.Process.Kill()
				_, _ = cmd.Process.Wait()
				want := fmt.Sprintf("s = %d 样本数据规模 bits = %d", cs.S, cs.N)
				if !strings.Contains(se.String(), want) {
					probs = append(probs, fmt.Sprintf("rddetector start-up line does not say %q: %s", want, tailStr(se.String(), 300)))
				}
			} else {
				dr := runProc(cwd, os.Environ(), 30*time.Minute, det, "-i", wantDir, "-o", rep)
				want := fmt.Sprintf("s = %d 样本数据规模 bits = %d", cs.S, cs.N)
				if dr.Status == "timeout" {
					undecided = true
				} else if dr.Exit != 0 || !strings.Contains(dr.Stderr, want) {
					probs = append(probs, fmt.Sprintf("rddetector did not accept the directory as %q (exit %d): %s", want, dr.Exit, tailStr(dr.Stderr, 300)))
				} else if b, err := os.ReadFile(rep); err != nil || strings.Count(string(b), "\n") != cs.S+1 {
					probs = append(probs, fmt.Sprintf("rddetector report has %d lines for %d samples", strings.Count(string(b), "\n"), cs.S))
				}
			}
		}
	}
	wantRel = strings.TrimPrefix(wantDir, cwd+"/")
	return
}

func runC20(c *ev.Ctx) {
	defer os.RemoveAll(fmt.Sprintf("/dev/shm/verif-tmp-%d", os.Getpid()))
	c.Rule = "each case = one run of the built rdgen in a fresh scratch working directory: exit 0; the set of files under the requested output directory (default target/data) is exactly random0.bin..random(s-1).bin plus whatever was there before (unchanged); every size is n/8; contents pairwise different (n >= 256 bits); nothing created elsewhere under the working directory; for the supported sizes rddetector accepts the directory as s samples of n bits. Varied: s in {1..40,64,300}, n in {8,64,20000,10^6,98760,2^18,2^18+8,3*2^18,2^20,2^20-8,10^8}, -o absent / relative / ./a/b/c / absolute / pre-existing with unrelated files / trailing slash / %, spaces, unicode, leading dash / a symbolic link (relative and absolute target) / a directory already used by an earlier rdgen run with longer, shorter or equal samples, four process environments, 1/2/16 CPUs via taskset, GOMAXPROCS 1/16, strace-delayed write/openat, -race build. non-trivial = every run (each has its own post-state); distinct = distinct configuration"
	c.Assumptions = []string{"file-system post-state is read after the process exited"}
	seed := uint64(c.Seed)
	work := os.Getenv("VERIF_WORK")
	bin, err := buildTool("rdgen", work, false)
	if err != nil {
		c.Inconclusive(err.Error())
		return
	}
	binRace, err := buildTool("rdgen", work, true)
	if err != nil {
		c.Inconclusive(err.Error())
		return
	}
	det, err := buildTool("rddetector", work, false)
	if err != nil {
		c.Inconclusive(err.Error())
		return
	}
	haveStrace := straceOK()
	outs := []string{"", "out2e4", "./a/b/c", "ABS", "pre", "trail/", "my%20data%20set", "sp ace/näme-测试", "50%/25%d", "x/../y//z", "-dash", "SYMREL", "SYMABS", "donn\xe9es_latin1", "\xca\xfd\xbe\xdd/gbk"}
	var cases []c20Case
	r := gen.NewRng(gen.Mix(seed, 2020))
	ss := []int{1, 2, 3, 17, 64, 300}
	nn := []int{8, 64, 20000, 1000000, 12345 * 8, 262144, 262152, 786432, 1 << 20, 1<<20 - 8}
	k := 0
	for _, s := range ss {
		for _, n := range nn {
			if n >= 262144 && s > 17 {
				continue
			}
			k++
			o := outs[k%len(outs)]
			cs := c20Case{S: s, N: n, Out: o, Pre: o == "pre", CPUs: []int{0, 1, 2}[k%3], Procs: []int{0, 1, 16}[(k/3)%3], Race: k%6 == 5, Strace: haveStrace && k%7 == 3 && s <= 64}
			cs.Accept = (n == 20000 && s <= 17) || (n == 1000000 && s == 2)
			cases = append(cases, cs)
		}
	}
	// every sample count 1..40 (fewer than, as many as, more than the 16 writer goroutines)
	for sv := 1; sv <= 40; sv++ {
		cases = append(cases, c20Case{S: sv, N: []int{64, 256, 20000}[sv%3], Out: outs[sv%6], Pre: outs[sv%6] == "pre", CPUs: []int{0, 0, 1, 2, 3}[sv%5], Accept: sv%3 == 2 && sv <= 20})
	}
	// every -o variant at a supported size, with acceptance
	for _, o := range outs {
		cases = append(cases, c20Case{S: 5, N: 20000, Out: o, Pre: o == "pre", CPUs: []int{0, 1, 2}[r.Intn(3)], Accept: true})
	}
	cases = append(cases, c20Case{S: 2, N: 100000000, Out: "big", Accept: true})
	// more samples than the process may hold open files (macOS's default limit is 256, many services run with 1024)
	if _, err := exec.LookPath("prlimit"); err == nil {
		cases = append(cases, c20Case{S: 200, N: 20000, Out: "lim", NoFile: 64, Accept: false}, c20Case{S: 1000, N: 64, Out: "", NoFile: 256}, c20Case{S: 300, N: 1000000, Out: "lim2", NoFile: 128, CPUs: 2})
	}
	// re-generation into a directory used by an earlier run (longer / shorter / equal samples)
	for i, pv := range [][3]int{{1000000, 20000, 6}, {20008, 20000, 5}, {8, 20000, 5}, {20000, 20000, 7}, {64, 8, 9}, {1000008, 1000000, 2}} {
		cases = append(cases, c20Case{S: pv[2], N: pv[1], PrevN: pv[0], PrevS: pv[2], Out: outs[i%len(outs)], Pre: outs[i%len(outs)] == "pre", Accept: pv[1] == 20000 || pv[1] == 1000000, CPUs: []int{0, 1, 2}[i%3]})
	}
	if c.Thorough() {
		for i := 0; i < 240; i++ {
			cases = append(cases, c20Case{S: r.Range(1, 400), N: 8 * r.Range(1, 4000), Out: outs[r.Intn(len(outs))], CPUs: []int{0, 1, 2, 3}[r.Intn(4)], Procs: []int{0, 1, 2, 16}[r.Intn(4)], Race: i%4 == 0, Strace: haveStrace && i%5 == 0})
		}
		cases = append(cases, c20Case{S: 20, N: 1000000, Out: "m", Accept: true})
	}
	var mu sync.Mutex
	parallelN(8, len(cases), func(i int) {
		cs := cases[i]
		probs, undecided, pr, key, wantRel := evalC20(cs, i, work, bin, binRace, det)
		mu.Lock()
		defer mu.Unlock()
		c.Count("rdgen_runs", 1)
		if cs.Accept {
			c.Count("runs_with_rddetector_acceptance", 1)
		}
		if cs.Strace {
			c.Count("runs_with_strace_delays", 1)
		}
		if cs.Race {
			c.Count("runs_race_build", 1)
		}
		c.Count("files_expected", int64(cs.S))
		if undecided {
			c.Eval(ev.HashStr(key), false)
			c.Inconclusive(key + ": watchdog fired")
			return
		}
		c.Eval(ev.HashStr(key), true)
		if len(probs) > 0 {
			vkey := fmt.Sprintf("rdgen:o=%q:%s", cs.Out, clip(probs[0], 50))
			c.Violation(vkey, strings.Join(probs, "; ")+" ["+key+"]", "c20", cs)
		} else if c.NSamples() < 5 {
			c.Sample(map[string]interface{}{"config": cs, "post_state": fmt.Sprintf("%d files of %d bytes in %s, nothing elsewhere", cs.S, cs.N/8, wantRel), "wall_ms": pr.Duration.Milliseconds()})
		}
	})
	total, distinct, sample := raceReports(work)
	c.Count("race_detector_reports", int64(total))
	for k, n := range distinct {
		c.Violation("race:"+k, fmt.Sprintf("%d DATA RACE report(s), first:\n%s", n, sample), "race", k)
	}
}

func init() {
	replayers["c20"] = func(raw json.RawMessage) (bool, string) {
		var cs c20Case
		if err := json.Unmarshal(raw, &cs); err != nil {
			return false, err.Error()
		}
		work := os.Getenv("VERIF_WORK")
		bin, err := buildTool("rdgen", work, false)
		if err != nil {
			return false, err.Error()
		}
		binRace, err := buildTool("rdgen", work, true)
		if err != nil {
			return false, err.Error()
		}
		det, err := buildTool("rddetector", work, false)
		if err != nil {
			return false, err.Error()
		}
		probs, und, _, key, _ := evalC20(cs, 0, work, bin, binRace, det)
		if und {
			return false, "watchdog fired: inconclusive"
		}
		return len(probs) > 0, key + ": " + strings.Join(probs, "; ")
	}
}

func init() {
	replayers["c13"] = func(raw json.RawMessage) (bool, string) {
		var run c13Run
		if err := json.Unmarshal(raw, &run); err != nil {
			return false, err.Error()
		}
		if run.Driver != "binary" || run.NBytes == 0 {
			return false, "only binary-driver cases can be replayed singly; in-package cases need the full check: " + string(raw)
		}
		work := os.Getenv("VERIF_WORK")
		exe, err := buildTool("rddetector", work, run.Race)
		if err != nil {
			return false, err.Error()
		}
		root := filepath.Join(work, "replay-bin")
		d := makeSampleDir(filepath.Join(root, "in"), run.S, run.NBytes, run.DirSeed, run.Scale == "1E8", run.Dup)
		report := filepath.Join(root, "out", "report.csv")
		argv := []string{exe, "-i", d.Root, "-o", report, "-n", fmt.Sprint(run.N)}
		if run.Strace {
			argv = append([]string{"strace", "-f", "-o", "/dev/null", "-e", "trace=write", "-P", report, "-e", "inject=write:delay_exit=3000:when=2+"}, argv...)
		}
		if run.NoFile > 0 {
			argv = append([]string{"prlimit", fmt.Sprintf("--nofile=%d:%d", run.NoFile, run.NoFile)}, argv...)
		}
		pr := runProc(root, append(os.Environ(), fmt.Sprintf("GOMAXPROCS=%d", run.Procs), "GOTRACEBACK=all"), 45*time.Minute, argv...)
		if pr.Status == "timeout" {
			return false, "watchdog fired: inconclusive"
		}
		if pr.Status != "exited" || pr.Exit != 0 {
			return true, fmt.Sprintf("rddetector did not terminate normally (%s, exit %d): %s", pr.Status, pr.Exit, tailStr(pr.Stderr, 800))
		}
		rep, err := os.ReadFile(report)
		if err != nil {
			return true, "no report written"
		}
		probs, cols, rows := checkReport(ev.New("C13", "exploration", "quick"), string(rep), "", d.Files, run.NBytes*8)
		var msgs []string
		for _, p := range probs {
			msgs = append(msgs, p.Msg)
		}
		return len(probs) > 0, fmt.Sprintf("%d rows x %d columns checked (header constant not compared in replay): %s", rows, cols, strings.Join(msgs, "; "))
	}
}
