package main

// Workflow scenarios: one isolated execution of a detect workflow on a prepared stream
// with the monitors of internal/mon at the seams. Scenarios run in `vcheck child wf`
// processes; the parent decides verdicts from the recorded observations.

import (
	"bufio"
	"bytes"
	"encoding/hex"
	"encoding/json"
	"fmt"
	"io"
	"math"
	"os"
	"os/exec"
	"path/filepath"
	"runtime"
	"strings"
	"sync"
	"sync/atomic"
	"syscall"
	"time"

	R "github.com/Trisia/randomness"
	"github.com/Trisia/randomness/detect"

	"verif/internal/gen"
	"verif/internal/mon"
	"verif/internal/oracle"
)

const modulePath = "github.com/Trisia/randomness"

type wfInfo struct {
	Name  string
	Fn    func(io.Reader) (bool, error)
	S, B  int
	Items int
	Fast  bool
	Seq   string // sequential counterpart
}

var workflows = map[string]wfInfo{
	"Factory":     {"Factory", detect.FactoryDetect, 50, 125000, 15, false, "Factory"},
	"PowerOn":     {"PowerOn", detect.PowerOnDetect, 20, 125000, 15, false, "PowerOn"},
	"Period":      {"Period", detect.PeriodDetect, 20, 2500, 12, false, "Period"},
	"FactoryFast": {"FactoryFast", detect.FactoryDetectFast, 50, 125000, 15, true, "Factory"},
	"PowerOnFast": {"PowerOnFast", detect.PowerOnDetectFast, 20, 125000, 15, true, "PowerOn"},
	"PeriodFast":  {"PeriodFast", detect.PeriodDetectFast, 20, 2500, 12, true, "Period"},
}

var wfNames = []string{"Factory", "PowerOn", "Period", "FactoryFast", "PowerOnFast", "PeriodFast"}

// Stream describes the bytes a source holds.
type Stream struct {
	Kind   string       `json:"kind"` // matrix | prng | lfsr64 | biased | const | periodic
	Seed   uint64       `json:"seed,omitempty"`
	Matrix [][]mon.Cell `json:"matrix,omitempty"`
	Byte   int          `json:"byte,omitempty"`
	Period string       `json:"period,omitempty"` // hex
	Bias   int          `json:"bias,omitempty"`   // permille of ones
	Tail   string       `json:"tail,omitempty"`   // "" | fail | random | none
	Extra  int          `json:"extra,omitempty"`  // extra bytes after the required ones (default: one sample)
}

// Scn is one scenario.
type Scn struct {
	ID      int            `json:"id"`
	WF      string         `json:"wf"`
	Stream  Stream         `json:"stream"`
	Stub    bool           `json:"stub"`
	Chunk   mon.ChunkPlan  `json:"chunk"`
	Fault   *mon.FaultPlan `json:"fault,omitempty"`
	Delay   mon.DelayPlan  `json:"delay"`
	Procs   int            `json:"procs,omitempty"`
	NumByte int            `json:"num_byte,omitempty"` // Single
	Group   string         `json:"group,omitempty"`    // parent-side grouping key
	Chain   string         `json:"chain,omitempty"`    // scenarios sharing a chain run in ONE child process, in order (history-dependent state)
	Source  string         `json:"source,omitempty"`   // "" = recording reader | bytes | file | bufio | limited : the concrete io.Reader type handed to the workflow
	Prefix  int            `json:"prefix,omitempty"`   // bytes of unrelated good data already consumed from the source before the call (non-zero position)
	Repeat  int            `json:"repeat,omitempty"`   // Single: call this many times in a row on the same source; verdicts are compared with the reference on consecutive chunks
	Note    string         `json:"note,omitempty"`
}

// Res is what a child observed for one scenario.
type Res struct {
	ID          int      `json:"id"`
	Status      string   `json:"status"` // returned | panic | deadlock | crash | timeout | hang
	Verdict     bool     `json:"verdict"`
	Err         string   `json:"err"`
	HasErr      bool     `json:"has_err"`
	Crash       string   `json:"crash,omitempty"`
	ModelKnown  bool     `json:"model_known"`
	ModelOK     bool     `json:"model_ok"`
	ModelBad    []string `json:"model_bad,omitempty"`
	ModelAmbig  bool     `json:"model_ambig,omitempty"`
	Problems    []string `json:"problems,omitempty"`
	Judged      int      `json:"judged"`
	Reads       int      `json:"reads"`
	RunCalls    int      `json:"run_calls"`
	Delivered   int64    `json:"delivered"`
	PostEvents  int      `json:"post_events"`
	FaultFired  bool     `json:"fault_fired"`
	Sig         string   `json:"sig,omitempty"`
	Workers     int      `json:"workers"`
	Leaked      []string `json:"leaked,omitempty"`
	CensusUnd   bool     `json:"census_undecided,omitempty"`
	Ms          float64  `json:"ms"`
	NumCPU      int      `json:"numcpu"`
	RegistryOK  bool     `json:"registry_ok"`
	SeqVerdicts []bool   `json:"seq_verdicts,omitempty"` // Single with Repeat: verdict of every call
	SeqWant     []bool   `json:"seq_want,omitempty"`     // reference verdicts on consecutive chunks
}

func lfsr64Bytes(seed uint64, n int) []byte {
	st := seed | 1
	out := make([]byte, n)
	for i := range out {
		var b byte
		for k := 0; k < 8; k++ {
			lsb := st & 1
			st >>= 1
			if lsb == 1 {
				st ^= 0xD800000000000000
			}
			b = b<<1 | byte(lsb)
		}
		out[i] = b
	}
	return out
}

// build materialises the stream for a workflow needing `need` bytes with sample size B.
func (s Stream) build(need, B int) (out []byte) {
	extra := s.Extra
	if extra == 0 {
		extra = B
	}
	// content is generated for the full length and cut afterwards, so that a stream with and without
	// its tail holds the same required bytes
	total := need + extra
	defer func() {
		if s.Tail == "none" && len(out) > need {
			out = out[:need]
		}
	}()
	switch s.Kind {
	case "matrix":
		out = mon.EncodeMatrix(s.Matrix, B, s.Seed, gen.NewRng(gen.Mix(s.Seed, 99)))
		if len(out) < need {
			out = append(out, gen.NewRng(gen.Mix(s.Seed, 98)).Bytes(need-len(out))...)
		}
		tail := make([]byte, total-len(out))
		if s.Tail == "random" {
			copy(tail, gen.NewRng(gen.Mix(s.Seed, 97)).Bytes(len(tail)))
		}
		// "fail"/default: all-zero tail decodes as (Pass=false,Q=0) for every item
		out = append(out, tail...)
	case "prng":
		out = gen.NewRng(gen.Mix(s.Seed, 1)).Bytes(total)
	case "lfsr64":
		out = lfsr64Bytes(gen.Mix(s.Seed, 2), total)
	case "biased":
		bits := gen.Seq{Fam: "bias", N: total * 8, A: s.Bias, Seed: s.Seed}.Bits()
		out = gen.Pack(bits)
	case "const":
		out = bytes.Repeat([]byte{byte(s.Byte)}, total)
	case "periodic":
		p, _ := hex.DecodeString(s.Period)
		out = make([]byte, total)
		for i := range out {
			out[i] = p[i%len(p)]
		}
	default:
		panic("stream kind " + s.Kind)
	}
	if s.Tail == "random" && s.Kind != "matrix" && len(out) > need {
		copy(out[need:], gen.NewRng(gen.Mix(s.Seed, 97)).Bytes(len(out)-need))
	}
	return out
}

// decide applies the GM/T 0005 section 6 rule to judged samples (first `items` cells of each).
func decide(rows [][]mon.Cell, items int, names []string) (ok bool, bad []string, ambiguous bool) {
	s := len(rows)
	T := oracle.Threshold(s)
	ok = true
	for i := 0; i < items; i++ {
		cnt := 0
		qs := make([]float64, 0, s)
		for _, r := range rows {
			if i < len(r) {
				if r[i].Pass {
					cnt++
				}
				qs = append(qs, r[i].Q)
			}
		}
		isBad := cnt < T
		pt := oracle.UniformityP(qs)
		if math.Abs(pt-1e-4) < 1e-9 {
			ambiguous = true
		}
		if pt < 1e-4 {
			isBad = true
		}
		if isBad {
			ok = false
			bad = append(bad, names[i])
		}
	}
	return
}

func itemNames() []string {
	reg := mon.SaveRegistry()
	out := make([]string, len(reg))
	for i, it := range reg {
		out[i] = it.Name
	}
	return out
}

// runScenario executes one scenario in this process.
func runScenario(sc Scn) Res {
	res := Res{ID: sc.ID, NumCPU: runtime.NumCPU()}
	names := itemNames()
	log := mon.NewLog(sc.Delay)
	if sc.Procs > 0 {
		runtime.GOMAXPROCS(sc.Procs)
	} else {
		runtime.GOMAXPROCS(runtime.NumCPU())
	}
	var w wfInfo
	need := sc.NumByte
	B := sc.NumByte
	if sc.WF != "Single" {
		w = workflows[sc.WF]
		need, B = w.S*w.B, w.B
	}
	if B <= 0 {
		B = 16
	}
	stream := sc.Stream.build(need, B)
	full := stream
	if sc.Prefix > 0 {
		full = append(gen.NewRng(gen.Mix(sc.Stream.Seed, 4242)).Bytes(sc.Prefix), stream...)
	}
	rd := mon.NewReader(full, sc.Chunk, sc.Fault, sc.Delay, &log.Seq)
	log.SetPost(rd.Fired)
	var src io.Reader = rd
	var closeSrc func()
	var bufUnder *bytes.Reader
	var bufRd *bufio.Reader
	switch sc.Source {
	case "", "mon":
		if sc.Prefix > 0 {
			_, _ = io.CopyN(io.Discard, rd, int64(sc.Prefix))
		}
	case "bytes":
		br := bytes.NewReader(full)
		_, _ = br.Seek(int64(sc.Prefix), io.SeekStart)
		src = br
	case "file":
		fn := filepath.Join(os.Getenv("VERIF_WORK"), fmt.Sprintf("src-%d-%d.bin", os.Getpid(), sc.ID))
		_ = os.WriteFile(fn, full, 0o644)
		f, err := os.Open(fn)
		if err == nil {
			_, _ = f.Seek(int64(sc.Prefix), io.SeekStart)
			src = f
			closeSrc = func() { f.Close(); os.Remove(fn) }
		}
	case "bufio", "bufiobig":
		size := 4096
		if sc.Source == "bufiobig" {
			size = 1 << 16 // at least as large as small single-shot requests
		}
		under := bytes.NewReader(full)
		b := bufio.NewReaderSize(under, size)
		_, _ = b.Discard(sc.Prefix)
		src = b
		bufUnder, bufRd = under, b
	case "limited":
		br := bytes.NewReader(full)
		_, _ = br.Seek(int64(sc.Prefix), io.SeekStart)
		src = io.LimitReader(br, int64(len(stream)))
	case "devzero", "devurandom":
		// an *os.File backed by a character device: endless, Stat().Size() == 0, Seek "succeeds"
		f, err := os.Open(map[string]string{"devzero": "/dev/zero", "devurandom": "/dev/urandom"}[sc.Source])
		if err == nil {
			src = f
			closeSrc = func() { f.Close() }
		}
	case "pipe":
		// an *os.File that is a pipe: not seekable, size 0, delivers what the writer has written so far
		pr, pw, err := os.Pipe()
		if err == nil {
			go func() {
				_, _ = pw.Write(full[sc.Prefix:])
				pw.Close()
			}()
			src = pr
			closeSrc = func() { pr.Close() }
		}
	}
	if sc.Source == "nestedfast" {
		// a self-testing source: its first Read runs a complete PeriodDetectFast on its own raw generator
		// before serving a byte (a workflow nested inside another workflow's read)
		src = &nestedSource{inner: rd, seed: sc.Stream.Seed}
	}
	devSource := sc.Source == "devzero" || sc.Source == "devurandom"
	if closeSrc != nil {
		defer closeSrc()
	}
	mon.Install(log, sc.Stub)
	defer mon.RestoreRegistry()
	t0 := time.Now()
	var verdict bool
	var err error
	pan := panicValue(func() {
		if sc.WF == "Single" && sc.Repeat > 1 {
			for k := 0; k < sc.Repeat; k++ {
				v, e := detect.SingleDetect(src, sc.NumByte)
				res.SeqVerdicts = append(res.SeqVerdicts, v && e == nil)
				if k == 0 {
					verdict, err = v, e
				}
			}
			for k := 0; k < sc.Repeat && (k+1)*sc.NumByte <= len(stream); k++ {
				chunk := stream[k*sc.NumByte : (k+1)*sc.NumByte]
				p, _ := oracle.Poker(oracle.Bits(gen.Unpack(chunk)), singleM(sc.NumByte*8))
				res.SeqWant = append(res.SeqWant, p >= 0.01)
			}
		} else if sc.WF == "Single" {
			verdict, err = detect.SingleDetect(src, sc.NumByte)
		} else {
			verdict, err = w.Fn(src)
		}
	})
	res.Ms = float64(time.Since(t0).Microseconds()) / 1000
	if pan != nil {
		res.Status = "panic"
		res.Crash = fmt.Sprint(pan)
	} else {
		res.Status = "returned"
	}
	res.Verdict = verdict
	if err != nil {
		res.HasErr = true
		res.Err = err.Error()
	}
	// leftovers of the module under test
	leaked, und := mon.Census(modulePath, 4000, 200)
	for _, g := range leaked {
		if len(g) > 600 {
			g = g[:600]
		}
		res.Leaked = append(res.Leaked, g)
	}
	res.CensusUnd = und
	if !und && len(leaked) > 0 {
		// declared leak
	} else if und {
		res.Leaked = nil
	}
	res.Reads = rd.Calls
	res.Delivered = rd.Delivered() - int64(sc.Prefix)
	if sc.Source != "" && sc.Source != "mon" {
		res.Delivered = -1 // not observable through a foreign reader type
		if bufRd != nil {
			// consumed through a bufio.Reader = what left the underlying reader minus what is still buffered
			res.Delivered = int64(len(full)-bufUnder.Len()-bufRd.Buffered()) - int64(sc.Prefix)
		}
	}
	res.FaultFired = rd.Fired()
	res.RunCalls = len(log.Events)
	res.PostEvents += rd.PostCalls
	for _, e := range log.Events {
		if e.Post {
			res.PostEvents++
		}
	}
	// registry unchanged by the workflow (the wrappers are ours; names/length must be intact)
	res.RegistryOK = len(R.TestMethodArr) == len(names)
	for i := range R.TestMethodArr {
		if i < len(names) && R.TestMethodArr[i].Name != names[i] {
			res.RegistryOK = false
		}
	}
	if sc.WF == "Single" || res.Status != "returned" {
		return res
	}
	js := mon.GroupJudged(log.Events)
	if sc.Source == "nestedfast" {
		// the nested detection's own samples pass through the same registry: keep only this stream's
		want := map[uint64]bool{}
		for j := 0; (j+1)*w.B <= len(stream); j++ {
			want[mon.Hash64(stream[j*w.B:(j+1)*w.B])] = true
		}
		kept := js[:0:0]
		for _, jd := range js {
			if want[jd.Hash] {
				kept = append(kept, jd)
			}
		}
		js = kept
	}
	res.Judged = len(js)
	gids := map[int64]bool{}
	for _, j := range js {
		gids[j.Gid] = true
	}
	res.Workers = len(gids)
	if sc.Fault != nil {
		// under a failing source the judged samples are a subset, but each one must still be a chunk of
		// consecutive fresh stream bytes (a retry that re-fills the buffer from the wrong offset shows here)
		want := map[uint64]bool{}
		for j := 0; (j+1)*w.B <= len(stream); j++ {
			want[mon.Hash64(stream[j*w.B:(j+1)*w.B])] = true
		}
		for k, jd := range js {
			if !want[jd.Hash] {
				res.Problems = append(res.Problems, fmt.Sprintf("judged sample #%d (goroutine %d) is not a chunk stream[j*%d:(j+1)*%d] of the source: shifted, stale or partially re-read bytes", k, jd.Gid, w.B, w.B))
				break
			}
		}
	}
	if sc.Fault == nil {
		probs, chunkOf := mon.CheckHistory(js, stream, w.B, w.S, w.Items, !w.Fast)
		if devSource {
			probs = nil // the bytes come from the device, not from the prepared stream
			if len(js) != w.S {
				probs = append(probs, fmt.Sprintf("%d samples judged, expected %d", len(js), w.S))
			}
		}
		res.Problems = probs
		res.Sig = mon.ScheduleSignature(js, chunkOf)
		rows := make([][]mon.Cell, 0, len(js))
		if sc.Stub && sc.Stream.Kind == "matrix" && !devSource {
			rows = sc.Stream.Matrix // ground truth
		} else {
			for _, j := range js {
				rows = append(rows, j.Cells)
			}
		}
		if len(rows) == w.S {
			res.ModelKnown = true
			res.ModelOK, res.ModelBad, res.ModelAmbig = decide(rows, w.Items, names)
		}
	}
	return res
}

// ---------- child side ----------

func init() {
	childKinds["wf"] = func(args []string) int {
		if len(args) < 2 {
			fmt.Println("child wf <scenarios.jsonl> <results.jsonl>")
			return 2
		}
		in, err := os.ReadFile(args[0])
		if err != nil {
			fmt.Println(err)
			return 2
		}
		out, err := os.OpenFile(args[1], os.O_CREATE|os.O_WRONLY|os.O_APPEND, 0o644)
		if err != nil {
			fmt.Println(err)
			return 2
		}
		// the Fast workflows print their counters: keep them out of the way
		if dn, err := os.OpenFile(os.DevNull, os.O_WRONLY, 0); err == nil {
			os.Stdout = dn
		}
		for _, line := range bytes.Split(in, []byte("\n")) {
			if len(bytes.TrimSpace(line)) == 0 {
				continue
			}
			var sc Scn
			if err := json.Unmarshal(line, &sc); err != nil {
				fmt.Fprintln(os.Stderr, "bad scenario:", err)
				return 2
			}
			fmt.Fprintf(out, "BEGIN %d\n", sc.ID)
			r := runScenario(sc)
			b, _ := json.Marshal(r)
			fmt.Fprintf(out, "END %d %s\n", sc.ID, b)
		}
		out.Close()
		return 0
	}
}

// ---------- parent side ----------

type runOpts struct {
	Race     bool
	CPUs     int           // >0: run children under taskset -c 0-(CPUs-1)
	Parallel int           // children at once
	PerScn   time.Duration // generous expected upper bound for one scenario (watchdog = 50x + 60s per batch element)
	Label    string
	Shuffle  uint64 // != 0: seeded shuffle of the execution order (chains stay together, in order)
	Arch386  bool   // run the children with the 32-bit build of the harness
}

// runScenarios executes all scenarios in child processes and returns results by id.
func runScenarios(scns []Scn, o runOpts) map[int]*Res {
	if o.Parallel <= 0 {
		o.Parallel = runtime.NumCPU()
	}
	if o.PerScn == 0 {
		o.PerScn = 2 * time.Second
	}
	out := map[int]*Res{}
	var mu sync.Mutex
	nb := o.Parallel
	if nb > len(scns) {
		nb = len(scns)
	}
	// units: a chain (kept together, in order) or a single scenario
	var units [][]Scn
	chainIdx := map[string]int{}
	for _, s := range scns {
		if s.Chain != "" {
			if k, ok := chainIdx[s.Chain]; ok {
				units[k] = append(units[k], s)
				continue
			}
			chainIdx[s.Chain] = len(units)
		}
		units = append(units, []Scn{s})
	}
	if o.Shuffle != 0 {
		r := gen.NewRng(o.Shuffle)
		for i := len(units) - 1; i > 0; i-- {
			j := r.Intn(i + 1)
			units[i], units[j] = units[j], units[i]
		}
	}
	if nb > len(units) {
		nb = len(units)
	}
	batches := make([][]Scn, nb)
	for i, u := range units {
		batches[i%nb] = append(batches[i%nb], u...)
	}
	var wg sync.WaitGroup
	for bi := range batches {
		wg.Add(1)
		go func(bi int) {
			defer wg.Done()
			rest := batches[bi]
			attempt := 0
			retried := map[int]bool{}
			for len(rest) > 0 {
				attempt++
				got, inflight, status, crash := launchChild(rest, o, fmt.Sprintf("%s-b%d-a%d", o.Label, bi, attempt))
				mu.Lock()
				for _, r := range got {
					out[r.ID] = r
				}
				mu.Unlock()
				// drop finished scenarios
				done := map[int]bool{}
				for _, r := range got {
					done[r.ID] = true
				}
				var nr []Scn
				for _, s := range rest {
					if !done[s.ID] {
						nr = append(nr, s)
					}
				}
				rest = nr
				if status == "ok" {
					if len(rest) > 0 && inflight < 0 {
						// child exited cleanly without finishing: should not happen
						for _, s := range rest {
							mu.Lock()
							out[s.ID] = &Res{ID: s.ID, Status: "crash", Crash: "child ended without running the scenario"}
							mu.Unlock()
						}
						rest = nil
					}
					continue
				}
				if inflight >= 0 {
					if status == "timeout" && !retried[inflight] {
						retried[inflight] = true
						// move it to the front and try once more in a fresh child
						continue
					}
					mu.Lock()
					out[inflight] = &Res{ID: inflight, Status: status, Crash: crash}
					mu.Unlock()
					var nr2 []Scn
					for _, s := range rest {
						if s.ID != inflight {
							nr2 = append(nr2, s)
						}
					}
					rest = nr2
				} else {
					for _, s := range rest {
						mu.Lock()
						out[s.ID] = &Res{ID: s.ID, Status: "crash", Crash: "child failed before the first scenario: " + crash}
						mu.Unlock()
					}
					rest = nil
				}
			}
		}(bi)
	}
	wg.Wait()
	return out
}

var childLaunches int64

// launchChild runs one child over scns. Returns finished results, the id in flight at abnormal exit (-1 if none), status and crash text.
func launchChild(scns []Scn, o runOpts, label string) (got []*Res, inflight int, status, crash string) {
	work := os.Getenv("VERIF_WORK")
	if work == "" {
		work = os.TempDir()
	}
	inF := filepath.Join(work, label+".in")
	outF := filepath.Join(work, label+".out")
	errF := filepath.Join(work, label+".err")
	defer func() { os.Remove(inF); os.Remove(outF); os.Remove(errF) }()
	var buf bytes.Buffer
	for _, s := range scns {
		b, _ := json.Marshal(s)
		buf.Write(b)
		buf.WriteByte('\n')
	}
	_ = os.WriteFile(inF, buf.Bytes(), 0o644)
	os.Remove(outF)
	bin := os.Getenv("VERIF_BIN")
	if o.Race {
		bin = os.Getenv("VERIF_BIN_RACE")
	}
	if o.Arch386 {
		bin = os.Getenv("VERIF_BIN_386")
	}
	if bin == "" {
		return nil, -1, "crash", "harness binary path not set (VERIF_BIN / VERIF_BIN_RACE)"
	}
	args := []string{bin, "child", "wf", inF, outF}
	if o.CPUs > 0 {
		args = append([]string{"taskset", "-c", fmt.Sprintf("0-%d", o.CPUs-1)}, args...)
	}
	cmd := exec.Command(args[0], args[1:]...)
	ef, _ := os.Create(errF)
	cmd.Stderr = ef
	cmd.Stdout = nil
	cmd.Env = append(os.Environ(), "GOTRACEBACK=all")
	if atomic.AddInt64(&childLaunches, 1)%2 == 0 {
		// every other child runs with an aggressive collector: pooled / cached state is dropped at
		// different moments than with the default setting
		cmd.Env = append(cmd.Env, "GOGC=1")
	}
	if o.Race {
		cmd.Env = append(cmd.Env, "GORACE=halt_on_error=0 log_path="+filepath.Join(work, "race-"+label))
	}
	if err := cmd.Start(); err != nil {
		ef.Close()
		return nil, -1, "crash", err.Error()
	}
	// progress-based watchdog: every scenario gets its own generous deadline, counted from the
	// moment the child last made progress (new BEGIN/END line in the results file)
	limit := o.PerScn*50 + 30*time.Second
	doneCh := make(chan error, 1)
	go func() { doneCh <- cmd.Wait() }()
	timedOut := false
	var werr error
	lastSize := int64(-1)
	lastProgress := time.Now()
	tick := time.NewTicker(100 * time.Millisecond)
	defer tick.Stop()
wait:
	for {
		select {
		case werr = <-doneCh:
			break wait
		case <-tick.C:
			var sz int64
			if fi, err := os.Stat(outF); err == nil {
				sz = fi.Size()
			}
			if sz != lastSize {
				lastSize = sz
				lastProgress = time.Now()
			} else if time.Since(lastProgress) > limit {
				timedOut = true
				_ = cmd.Process.Signal(syscall.SIGQUIT)
				select {
				case werr = <-doneCh:
				case <-time.After(10 * time.Second):
					_ = cmd.Process.Kill()
					werr = <-doneCh
				}
				break wait
			}
		}
	}
	ef.Close()
	inflight = -1
	if f, err := os.Open(outF); err == nil {
		sc := bufio.NewScanner(f)
		sc.Buffer(make([]byte, 1<<20), 1<<26)
		for sc.Scan() {
			line := sc.Text()
			if strings.HasPrefix(line, "BEGIN ") {
				fmt.Sscanf(line, "BEGIN %d", &inflight)
			} else if strings.HasPrefix(line, "END ") {
				var id int
				fmt.Sscanf(line, "END %d", &id)
				i := strings.Index(line, "{")
				if i > 0 {
					var r Res
					if json.Unmarshal([]byte(line[i:]), &r) == nil {
						got = append(got, &r)
					}
				}
				if id == inflight {
					inflight = -1
				}
			}
		}
		f.Close()
	}
	if werr == nil && !timedOut {
		return got, -1, "ok", ""
	}
	eb, _ := os.ReadFile(errF)
	es := string(eb)
	if len(es) > 6000 {
		es = es[:3000] + "\n...\n" + es[len(es)-3000:]
	}
	switch {
	case strings.Contains(es, "all goroutines are asleep - deadlock!"):
		status = "deadlock"
	case timedOut:
		status = "timeout"
		if parkedInModule(string(eb)) {
			status = "hang"
		}
	default:
		status = "crash"
		if ee, ok := werr.(*exec.ExitError); ok {
			if ws, ok := ee.Sys().(syscall.WaitStatus); ok && ws.Signaled() && ws.Signal() == syscall.SIGKILL && !strings.Contains(es, "panic:") && !strings.Contains(es, "fatal error:") {
				// killed from outside the harness without a word from the Go runtime (the kernel's out-of-memory
				// killer on a loaded machine): nothing was observed about the library, so this is undecided
				status = "timeout"
				es = "child was killed by SIGKILL from outside the harness (out-of-memory killer?)\n" + es
			}
		}
	}
	return got, inflight, status, es
}

// parkedInModule: the SIGQUIT dump shows goroutines of the module under test and all of them are blocked.
func parkedInModule(dump string) bool {
	n := 0
	for _, g := range strings.Split(dump, "\n\n") {
		if !strings.HasPrefix(strings.TrimSpace(g), "goroutine ") || !strings.Contains(g, modulePath+"/detect.") {
			continue
		}
		n++
		hdr := g
		if i := strings.Index(g, "\n"); i >= 0 {
			hdr = g[:i]
		}
		blocked := false
		for _, s := range []string{"chan receive", "chan send", "semacquire", "sync.WaitGroup.Wait", "select", "sync.Mutex.Lock", "sync.Cond.Wait"} {
			if strings.Contains(hdr, s) {
				blocked = true
			}
		}
		if !blocked {
			return false
		}
	}
	return n > 0
}

// errItem extracts the item name an error message starts with.
func errItem(msg string) string {
	if i := strings.Index(msg, " "); i > 0 {
		return msg[:i]
	}
	return msg
}

// raceReports counts WARNING: DATA RACE blocks written by race children, de-duplicated by the
// pair of outermost module frames.
func raceReports(work string) (total int, distinct map[string]int, sample string) {
	distinct = map[string]int{}
	files, _ := filepath.Glob(filepath.Join(work, "race-*"))
	for _, f := range files {
		b, err := os.ReadFile(f)
		if err != nil {
			continue
		}
		base := filepath.Base(f)
		tool := strings.HasPrefix(base, "race-bin") || strings.HasPrefix(base, "race-gen") || strings.HasPrefix(base, "race-ov")
		for _, blk := range strings.Split(string(b), "==================") {
			if !strings.Contains(blk, "WARNING: DATA RACE") {
				continue
			}
			total++
			if sample == "" {
				sample = blk
				if len(sample) > 3000 {
					sample = sample[:3000]
				}
			}
			var fr []string
			for _, ln := range strings.Split(blk, "\n") {
				t := strings.TrimSpace(ln)
				if (strings.HasPrefix(t, modulePath) && !strings.Contains(t, "verif/")) || (tool && strings.HasPrefix(t, "main.")) {
					if i := strings.Index(t, "("); i > 0 {
						t = t[:i]
					}
					fr = append(fr, t)
				}
			}
			key := "unknown"
			if len(fr) > 0 {
				key = fr[0] + " <-> " + fr[len(fr)-1]
			}
			distinct[key]++
		}
	}
	return
}

func init() {
	replayers["wf"] = func(raw json.RawMessage) (bool, string) {
		var sc Scn
		if err := json.Unmarshal(raw, &sc); err != nil {
			return false, err.Error()
		}
		sc.ID = 1
		res := runScenarios([]Scn{sc}, runOpts{Parallel: 1, PerScn: 300 * time.Second, Label: "replay"})
		r := res[1]
		if r == nil {
			return false, "no result"
		}
		b, _ := json.Marshal(r)
		msg := string(b)
		bad := r.Status != "returned" || len(r.Problems) > 0 || len(r.Leaked) > 0 || r.Verdict == r.HasErr
		if r.ModelKnown && !r.ModelAmbig && r.Verdict != r.ModelOK {
			bad = true
		}
		if sc.Fault != nil && r.FaultFired && (r.Verdict || !r.HasErr) {
			bad = true
		}
		if sc.Stream.Kind == "const" || sc.Stream.Kind == "periodic" {
			if r.Verdict {
				bad = true
			}
		}
		return bad, "single-run clauses only (cross-run comparisons need the full check): " + msg
	}
}

// ---------- concurrent callers of the workflows ----------

// runConcurrentGroup runs the scenarios of one group at the same time in this process (stub runners only:
// the stubs are stateless decoders of the sample, so one installation serves all callers) and
// returns, per scenario, the verdict and the decision rule's verdict for its own matrix.
func runConcurrentGroup(scs []Scn) []Res {
	names := itemNames()
	log := mon.NewLog(mon.DelayPlan{})
	mon.Install(log, true)
	defer mon.RestoreRegistry()
	out := make([]Res, len(scs))
	var wg sync.WaitGroup
	start := make(chan struct{})
	for i := range scs {
		wg.Add(1)
		go func(i int) {
			defer wg.Done()
			sc := scs[i]
			w := workflows[sc.WF]
			stream := sc.Stream.build(w.S*w.B, w.B)
			var seq int64
			rd := mon.NewReader(stream, sc.Chunk, nil, sc.Delay, &seq)
			rd.MaxEvents = 0
			res := Res{ID: sc.ID, NumCPU: runtime.NumCPU(), RegistryOK: true}
			<-start
			var verdict bool
			var err error
			pan := panicValue(func() { verdict, err = w.Fn(rd) })
			if pan != nil {
				res.Status = "panic"
				res.Crash = fmt.Sprint(pan)
			} else {
				res.Status = "returned"
			}
			res.Verdict = verdict
			if err != nil {
				res.HasErr = true
				res.Err = err.Error()
			}
			res.RunCalls = 1
			if sc.Stream.Kind == "matrix" && len(sc.Stream.Matrix) == w.S {
				res.ModelKnown = true
				res.ModelOK, res.ModelBad, res.ModelAmbig = decide(sc.Stream.Matrix, w.Items, names)
			}
			out[i] = res
		}(i)
	}
	close(start)
	wg.Wait()
	return out
}

func init() {
	childKinds["wfconc"] = func(args []string) int {
		if len(args) < 2 {
			return 2
		}
		in, err := os.ReadFile(args[0])
		if err != nil {
			return 2
		}
		outF, err := os.OpenFile(args[1], os.O_CREATE|os.O_WRONLY|os.O_APPEND, 0o644)
		if err != nil {
			return 2
		}
		if dn, err := os.OpenFile(os.DevNull, os.O_WRONLY, 0); err == nil {
			os.Stdout = dn
		}
		gi := 0
		for _, line := range bytes.Split(in, []byte("\n")) {
			if len(bytes.TrimSpace(line)) == 0 {
				continue
			}
			var group []Scn
			if err := json.Unmarshal(line, &group); err != nil {
				return 2
			}
			fmt.Fprintf(outF, "BEGINGROUP %d\n", gi)
			gi++
			for _, r := range runConcurrentGroup(group) {
				b, _ := json.Marshal(r)
				fmt.Fprintf(outF, "END %d %s\n", r.ID, b)
			}
		}
		outF.Close()
		return 0
	}
}

// runConcGroups runs groups of scenarios (each group concurrently inside one child process). A child that
// dies inside a group (deadlock reported by the runtime, panic in a worker goroutine, fatal error) is
// classified from its stderr, the group's scenarios get that status, and a new child continues with the
// remaining groups.
func runConcGroups(groups [][]Scn, label string, race bool) map[int]*Res {
	out := map[int]*Res{}
	work := os.Getenv("VERIF_WORK")
	bin := os.Getenv("VERIF_BIN")
	if race {
		bin = os.Getenv("VERIF_BIN_RACE")
	}
	if bin == "" || len(groups) == 0 {
		return out
	}
	rest := groups
	for round := 0; len(rest) > 0 && round < len(groups)+1; round++ {
		inF := filepath.Join(work, fmt.Sprintf("%s-%d.in", label, round))
		outF := filepath.Join(work, fmt.Sprintf("%s-%d.out", label, round))
		errF := filepath.Join(work, fmt.Sprintf("%s-%d.err", label, round))
		var buf bytes.Buffer
		for _, g := range rest {
			b, _ := json.Marshal(g)
			buf.Write(b)
			buf.WriteByte('\n')
		}
		_ = os.WriteFile(inF, buf.Bytes(), 0o644)
		os.Remove(outF)
		cmd := exec.Command(bin, "child", "wfconc", inF, outF)
		cmd.Env = append(os.Environ(), "GOTRACEBACK=all")
		if race {
			cmd.Env = append(cmd.Env, "GORACE=halt_on_error=0 log_path="+filepath.Join(work, "race-"+label))
		}
		ef, _ := os.Create(errF)
		cmd.Stderr = ef
		done := make(chan error, 1)
		if err := cmd.Start(); err != nil {
			return out
		}
		go func() { done <- cmd.Wait() }()
		timedOut := false
		select {
		case <-done:
		case <-time.After(20 * time.Minute):
			timedOut = true
			_ = cmd.Process.Signal(syscall.SIGQUIT)
			select {
			case <-done:
			case <-time.After(10 * time.Second):
				_ = cmd.Process.Kill()
				<-done
			}
		}
		if ef != nil {
			ef.Close()
		}
		begun := -1
		if f, err := os.Open(outF); err == nil {
			sc := bufio.NewScanner(f)
			sc.Buffer(make([]byte, 1<<20), 1<<26)
			for sc.Scan() {
				line := sc.Text()
				if strings.HasPrefix(line, "BEGINGROUP ") {
					fmt.Sscanf(line, "BEGINGROUP %d", &begun)
					continue
				}
				if i := strings.Index(line, "{"); i > 0 && strings.HasPrefix(line, "END ") {
					var r Res
					if json.Unmarshal([]byte(line[i:]), &r) == nil {
						rr := r
						out[r.ID] = &rr
					}
				}
			}
			f.Close()
		}
		os.Remove(inF)
		os.Remove(outF)
		// which group (if any) was left unfinished?
		unfinished := -1
		if begun >= 0 && begun < len(rest) {
			for _, sc := range rest[begun] {
				if out[sc.ID] == nil {
					unfinished = begun
				}
			}
		}
		if unfinished < 0 {
			if begun+1 < len(rest) && begun >= 0 && !timedOut {
				rest = rest[begun+1:] // child died between groups: go on
				continue
			}
			os.Remove(errF)
			break
		}
		eb, _ := os.ReadFile(errF)
		os.Remove(errF)
		es := string(eb)
		status := "crash"
		switch {
		case strings.Contains(es, "all goroutines are asleep - deadlock!"):
			status = "deadlock"
		case timedOut:
			status = "timeout"
		case strings.Contains(es, "panic:") || strings.Contains(es, "fatal error:"):
			status = "panic"
		}
		if len(es) > 6000 {
			es = es[:6000]
		}
		for _, sc := range rest[unfinished] {
			if out[sc.ID] == nil {
				out[sc.ID] = &Res{ID: sc.ID, Status: status, Crash: es}
			}
		}
		rest = rest[unfinished+1:]
	}
	return out
}

// nestedSource runs PeriodDetectFast on a private stream inside its first Read.
type nestedSource struct {
	inner io.Reader
	seed  uint64
	once  sync.Once
}

func (n *nestedSource) Read(p []byte) (int, error) {
	n.once.Do(func() {
		raw := gen.NewRng(gen.Mix(n.seed, 31337)).Bytes(20 * 2500)
		_, _ = detect.PeriodDetectFast(bytes.NewReader(raw))
	})
	return n.inner.Read(p)
}
