package main

import (
	"bytes"
	"encoding/hex"
	"fmt"
	"math"
	"os"
	"sort"
	"strconv"
	"strings"
	"sync"
	"sync/atomic"
	"time"

	"github.com/Trisia/randomness/detect"

	"verif/internal/ev"
	"verif/internal/gen"
	"verif/internal/mon"
	"verif/internal/oracle"
)

func init() {
	register("C07", "exploration", runC07)
	register("C08", "exploration", runC08)
	register("C09", "fault_enumeration", runC09)
	register("C10", "exploration", runC10)
	register("C14", "exploration", runC14)
}

// ---------- matrix builders ----------

func uniformQs(r *gen.Rng, s int) []float64 {
	q := make([]float64, s)
	for j := range q {
		q[j] = (float64(j%10) + 0.05 + 0.9*r.Float()) / 10
	}
	p := r.Perm(s)
	out := make([]float64, s)
	for i, j := range p {
		out[i] = q[j]
	}
	return out
}

// baseMatrix: every item passes on every sample, Q-values spread evenly over the ten bins.
// Items at index >= items (not judged by the workflow) are set to fail everything.
func baseMatrix(r *gen.Rng, s, items int) [][]mon.Cell {
	m := make([][]mon.Cell, s)
	for j := range m {
		m[j] = make([]mon.Cell, 15)
	}
	for i := 0; i < 15; i++ {
		q := uniformQs(r, s)
		for j := 0; j < s; j++ {
			m[j][i] = mon.Cell{Pass: i < items, Q: q[j]}
			if i >= items {
				m[j][i].Q = 0
			}
		}
	}
	return m
}

func setPassCount(r *gen.Rng, m [][]mon.Cell, item, count int) {
	s := len(m)
	p := r.Perm(s)
	for k, j := range p {
		m[j][item].Pass = k < count
	}
}

// occupancyWithSumSq finds ten bin counts summing to s with the given sum of squares (nil if unreachable).
func occupancyWithSumSq(s, ss int) []int {
	// reach[k][t][q]: using k bins, total t, sum of squares q
	type key struct{ k, t, q int }
	memo := map[key]bool{}
	var rec func(k, t, q int) bool
	rec = func(k, t, q int) bool {
		if k == 0 {
			return t == 0 && q == 0
		}
		if t < 0 || q < 0 {
			return false
		}
		kk := key{k, t, q}
		if v, ok := memo[kk]; ok {
			return v
		}
		for f := 0; f <= t && f*f <= q; f++ {
			if rec(k-1, t-f, q-f*f) {
				memo[kk] = true
				return true
			}
		}
		memo[kk] = false
		return false
	}
	if !rec(10, s, ss) {
		return nil
	}
	out := make([]int, 0, 10)
	t, q := s, ss
	for k := 10; k >= 1; k-- {
		for f := 0; f <= t && f*f <= q; f++ {
			if rec(k-1, t-f, q-f*f) {
				out = append(out, f)
				t -= f
				q -= f * f
				break
			}
		}
	}
	return out
}

// uniformityBoundary returns the largest reachable sum of squares with P_T >= 1e-4 and the smallest with P_T < 1e-4.
func uniformityBoundary(s int) (passSS, failSS int) {
	passSS, failSS = -1, -1
	for ss := (s*s + 9) / 10; ss <= s*s; ss++ {
		F := occupancyWithSumSq(s, ss)
		if F == nil {
			continue
		}
		f64 := make([]int64, 10)
		for i, f := range F {
			f64[i] = int64(f)
		}
		pt := oracle.UniformityFromCounts(f64, s)
		if pt >= 1e-4 {
			passSS = ss
		} else if failSS < 0 {
			failSS = ss
		}
		if failSS >= 0 && ss > failSS+40 {
			break
		}
	}
	return
}

// setOccupancy writes Q-values for one item so that the bins have occupancy F. style: 0 inside bins, 1 one value per bin exactly on the lower edge, 2 uses 0 and 1.0 for the first and last bin
func setOccupancy(r *gen.Rng, m [][]mon.Cell, item int, F []int, style int) {
	s := len(m)
	qs := make([]float64, 0, s)
	rot := r.Intn(10)
	for b0 := 0; b0 < 10; b0++ {
		b := (b0 + rot) % 10 // which bin gets which occupancy is seeded
		for k := 0; k < F[b0]; k++ {
			q := (float64(b) + 0.02 + 0.96*r.Float()) / 10
			if style >= 1 && k == 0 {
				q = float64(b) / 10 // exactly k/10 belongs to bin k
			}
			if style == 2 && k == 1 && b == 9 {
				q = 1.0
			}
			if style == 3 {
				// the float64 neighbours of the bin edges: largest value still in bin b / smallest in bin b
				if k == 0 && b < 9 {
					q = math.Nextafter(float64(b+1)/10, 0)
				} else if k == 1 && b > 0 {
					q = math.Nextafter(float64(b)/10, 1)
				}
			}
			qs = append(qs, q)
		}
	}
	p := r.Perm(s)
	for k, j := range p {
		m[j][item].Q = qs[k]
	}
}

// ---------- verdict helpers ----------

type wfVerdict struct {
	ok   bool
	item string
}

// judgeSequentialRule applies the C07 clauses to one result and reports into c.
func judgeRule(c *ev.Ctx, prop string, sc Scn, r *Res) (decided bool) {
	key := fmt.Sprintf("%s:%s", sc.WF, sc.Note)
	switch r.Status {
	case "returned":
	case "timeout":
		c.Inconclusive(fmt.Sprintf("%s watchdog fired", key))
		return false
	default:
		c.Violation(key+":"+r.Status, fmt.Sprintf("workflow %s did not return normally: %s\n%s", sc.WF, r.Status, clip(r.Crash, 1500)), "wf", sc)
		return true
	}
	if !r.RegistryOK {
		c.Violation(key+":registry", "the registry was modified by the workflow", "wf", sc)
	}
	if sc.Stub && r.RunCalls == 0 {
		if sc.Fault == nil && !r.Verdict {
			named := false
			for _, n := range itemNames() {
				if errItem(r.Err) == n {
					named = true
				}
			}
			if !named {
				// a healthy source, no sample judged, and an error that names no test item
				c.Violation(key+":no-sample-judged", fmt.Sprintf("returned (false, %q) on a healthy source without judging a single sample; the error names no test item", r.Err), "wf", sc)
				return true
			}
		}
		c.Inconclusive(key + ": stub runners never invoked (registry bypassed?)")
		return false
	}
	if r.Verdict != !r.HasErr {
		c.Violation(key+":verdict-error-mismatch", fmt.Sprintf("verdict=%v with error %q (true must carry nil, false a non-nil error)", r.Verdict, r.Err), "wf", sc)
	}
	for _, p := range r.Problems {
		c.Violation(key+":history", p, "wf", sc)
		break
	}
	if r.ModelKnown {
		if r.ModelAmbig {
			c.Count("ambiguous_uniformity_boundary", 1)
			return false
		}
		if r.Verdict != r.ModelOK {
			c.Violation(key+":verdict", fmt.Sprintf("verdict %v (err %q), decision rule says %v (violating items %v)", r.Verdict, r.Err, r.ModelOK, r.ModelBad), "wf", sc)
		} else if !r.Verdict && r.HasErr {
			named := false
			for _, b := range r.ModelBad {
				if errItem(r.Err) == b {
					named = true
				}
			}
			if !named {
				c.Violation(key+":error-item", fmt.Sprintf("error %q names no violating item (violating: %v)", r.Err, r.ModelBad), "wf", sc)
			}
		}
	} else if sc.Fault == nil {
		c.Violation(key+":samples", fmt.Sprintf("%d samples judged, cannot build the result matrix (%v)", r.Judged, r.Problems), "wf", sc)
	}
	return true
}

func clip(s string, n int) string {
	if len(s) > n {
		return s[:n] + "…"
	}
	return s
}

func hashScn(sc Scn) uint64 {
	return ev.HashStr(fmt.Sprintf("%s|%s|%d|%v|%v|%v|%v|%d|%s|%s|%d", sc.WF, sc.Stream.Kind, sc.Stream.Seed, sc.Stub, sc.Chunk, sc.Fault, sc.Delay, sc.Procs, sc.Note, sc.Source, sc.Prefix))
}

func sampleScn(sc Scn, r *Res) map[string]interface{} {
	return map[string]interface{}{"workflow": sc.WF, "what": sc.Note, "stream": sc.Stream.Kind, "stub_runners": sc.Stub, "chunk": sc.Chunk, "fault": sc.Fault, "delay": sc.Delay,
		"observed": map[string]interface{}{"status": r.Status, "verdict": r.Verdict, "err": r.Err, "judged_samples": r.Judged, "runner_calls": r.RunCalls, "reads": r.Reads, "bytes_delivered": r.Delivered, "workers": r.Workers, "model_verdict": r.ModelOK, "model_violating": r.ModelBad}}
}

// ---------- C07 ----------

var seqWFs = []string{"Factory", "PowerOn", "Period"}

func c07Scenarios(seed uint64, thorough bool, wfs []string) []Scn {
	var out []Scn
	id := 0
	add := func(sc Scn) {
		id++
		sc.ID = id
		sc.Stub = sc.Stream.Kind == "matrix"
		if sc.Chunk.Kind == "" {
			sc.Chunk.Kind = "whole"
		}
		out = append(out, sc)
	}
	tails := []string{"fail", "random"}
	for _, name := range wfs {
		w := workflows[name]
		r := gen.NewRng(gen.Mix(seed, 707, uint64(len(name)), uint64(w.S)))
		T := oracle.Threshold(w.S)
		// every pass count for every item
		for i := 0; i < w.Items; i++ {
			for cnt := 0; cnt <= w.S; cnt++ {
				if !thorough && w.S == 50 && cnt < T-6 && cnt%7 != 0 {
					continue // quick: thin out the far-below-threshold counts of the 50-sample workflow
				}
				m := baseMatrix(r, w.S, w.Items)
				setPassCount(r, m, i, cnt)
				add(Scn{WF: name, Stream: Stream{Kind: "matrix", Seed: r.U64(), Matrix: m, Tail: tails[(i+cnt)%2]}, Note: fmt.Sprintf("item%d passcount=%d (T=%d)", i, cnt, T)})
			}
		}
		// uniformity boundary
		pss, fss := uniformityBoundary(w.S)
		for _, ss := range []int{pss, fss} {
			F := occupancyWithSumSq(w.S, ss)
			for i := 0; i < w.Items; i++ {
				for style := 0; style <= 3; style++ {
					m := baseMatrix(r, w.S, w.Items)
					setOccupancy(r, m, i, F, style)
					add(Scn{WF: name, Stream: Stream{Kind: "matrix", Seed: r.U64(), Matrix: m, Tail: tails[style%2]}, Note: fmt.Sprintf("item%d uniformity sumsq=%d (boundary %d/%d) style%d", i, ss, pss, fss, style)})
				}
			}
		}
		// both criteria on different items, everything failing, random matrices
		for k := 0; k < 12; k++ {
			m := baseMatrix(r, w.S, w.Items)
			a, b := r.Intn(w.Items), r.Intn(w.Items)
			setPassCount(r, m, a, T-1-r.Intn(2))
			setOccupancy(r, m, b, occupancyWithSumSq(w.S, fss), k%3)
			add(Scn{WF: name, Stream: Stream{Kind: "matrix", Seed: r.U64(), Matrix: m}, Note: fmt.Sprintf("count fails on item%d, uniformity fails on item%d", a, b)})
		}
		{
			m := baseMatrix(r, w.S, w.Items)
			for i := 0; i < w.Items; i++ {
				setPassCount(r, m, i, 0)
			}
			add(Scn{WF: name, Stream: Stream{Kind: "matrix", Seed: r.U64(), Matrix: m}, Note: "everything fails"})
		}
		nr := 40
		if thorough {
			nr = 300
		}
		for k := 0; k < nr; k++ {
			m := baseMatrix(r, w.S, w.Items)
			for i := 0; i < w.Items; i++ {
				if r.Intn(3) == 0 {
					setPassCount(r, m, i, T-2+r.Intn(4))
				}
				if r.Intn(4) == 0 {
					for j := range m {
						m[j][i].Q = r.Float()
						if r.Intn(8) == 0 {
							m[j][i].Q = float64(r.Intn(11)) / 10
						}
					}
				}
			}
			add(Scn{WF: name, Stream: Stream{Kind: "matrix", Seed: r.U64(), Matrix: m, Tail: tails[k%2]}, Note: fmt.Sprintf("random matrix %d", k)})
		}
	}
	return out
}

func realStreams(seed uint64, n int) []Stream {
	var out []Stream
	for k := 0; k < n; k++ {
		switch k % 4 {
		case 0, 3:
			out = append(out, Stream{Kind: "prng", Seed: gen.Mix(seed, 71, uint64(k))})
		case 1:
			out = append(out, Stream{Kind: "lfsr64", Seed: gen.Mix(seed, 72, uint64(k))})
		case 2:
			out = append(out, Stream{Kind: "biased", Seed: gen.Mix(seed, 73, uint64(k)), Bias: 500 + []int{-6, 4, -3, 8}[k/4%4]})
		}
	}
	return out
}

func runC07(c *ev.Ctx) {
	c.Rule = "each case = one run of FactoryDetect/PowerOnDetect/PeriodDetect on a generated stream. Stub runs: registry runners replaced by recording stubs that decode (Pass,Q) per item from the sample, so the stream encodes a chosen s x items result matrix (every pass count for every item, uniformity sum-of-squares just inside/outside P_T=1e-4 with Q values inside bins, on the edges and on their float64 neighbours, mixed, random; tails that would encode failures); history chains (a failing / faulting / Fast run first, then an accepted or at-threshold stream in the same process; execution order shuffled); sources that are devices or pipes; real runs: recording wrappers around the real tests on PRNG/LFSR/biased streams. Oracle: independent decision rule (exact integer threshold, exact Q(9/2,.)) + sample-history checker (j-th judged sample == j-th stream chunk, each chunk once, expected items once in registry order). non-trivial = scenario whose matrix is within 2 of the pass threshold or at the uniformity boundary, or any real-runner run; distinct = distinct scenario descriptor"
	c.Assumptions = []string{"randomness.TestMethodArr is the registry Round15/Round12 iterate (if it is bypassed the stub sweep reports inconclusive and only real-runner runs decide)", "reference decision rule in internal/oracle"}
	seed := uint64(c.Seed)
	scns := c07Scenarios(seed, c.Thorough(), seqWFs)
	id := len(scns)
	nPeriod, nPower, nFactory := 20, 1, 0
	if c.Thorough() {
		nPeriod, nPower, nFactory = 60, 4, 2
	}
	addReal := func(wf string, n int) {
		for _, st := range realStreams(gen.Mix(seed, uint64(len(wf))), n) {
			id++
			scns = append(scns, Scn{ID: id, WF: wf, Stream: st, Stub: false, Chunk: mon.ChunkPlan{Kind: "whole"}, Note: "real runners " + st.Kind + fmt.Sprint(st.Seed%1000)})
		}
	}
	addReal("Period", nPeriod)
	addReal("PowerOn", nPower)
	addReal("Factory", nFactory)
	// history chains: run A, then B, in ONE process. B is a stream the rule accepts (or sits exactly on
	// the threshold); A leaves whatever state it leaves (failed counts, non-uniform rows, read error,
	// run through the Fast variant). Decides that a verdict depends on its own stream only.
	{
		r := gen.NewRng(gen.Mix(seed, 7777))
		kinds := []string{"allfail", "tail-items-nonuniform", "fault@0", "fault-mid", "perfect"}
		nChain := 0
		for _, a := range allWFs {
			for _, b := range seqWFs {
				for ki, kind := range kinds {
					if !c.Thorough() && (workflows[a].S == 50 || workflows[b].S == 50) && ki%2 == 1 {
						continue
					}
					wa, wb := workflows[a], workflows[b]
					nChain++
					chain := fmt.Sprintf("chain%d", nChain)
					ma := baseMatrix(r, wa.S, wa.Items)
					var fault *mon.FaultPlan
					switch kind {
					case "allfail":
						for i := 0; i < wa.Items; i++ {
							setPassCount(r, ma, i, 0)
							for j := range ma {
								ma[j][i].Q = 0
							}
						}
					case "tail-items-nonuniform":
						for i := wa.Items - 3; i < wa.Items; i++ {
							for j := range ma {
								ma[j][i].Q = 0.95
							}
						}
					case "fault@0":
						fault = &mon.FaultPlan{Offset: 0, Kind: "eof", Sticky: true}
					case "fault-mid":
						fault = &mon.FaultPlan{Offset: int64(wa.B*(wa.S/2) + 17), Kind: "custom", Sticky: true}
					}
					id++
					scns = append(scns, Scn{ID: id, WF: a, Stream: Stream{Kind: "matrix", Seed: r.U64(), Matrix: ma}, Stub: true, Chunk: mon.ChunkPlan{Kind: "whole"}, Fault: fault, Chain: chain, Note: fmt.Sprintf("%s step1 %s", chain, kind)})
					mb := baseMatrix(r, wb.S, wb.Items)
					if ki%2 == 0 {
						for i := 0; i < wb.Items; i++ {
							setPassCount(r, mb, i, oracle.Threshold(wb.S))
						}
					}
					id++
					scns = append(scns, Scn{ID: id, WF: b, Stream: Stream{Kind: "matrix", Seed: r.U64(), Matrix: mb}, Stub: true, Chunk: mon.ChunkPlan{Kind: "whole"}, Chain: chain, Note: fmt.Sprintf("%s step2 after %s(%s): stream the rule accepts", chain, a, kind)})
				}
			}
		}
		c.Count("history_chains", int64(nChain))
	}
	// sources that are *os.File but not regular files: character devices (endless, size 0) and pipes
	{
		r := gen.NewRng(gen.Mix(seed, 7778))
		for _, name := range seqWFs {
			w := workflows[name]
			for _, srcT := range []string{"devzero", "devurandom", "pipe"} {
				m := baseMatrix(r, w.S, w.Items)
				if srcT == "pipe" {
					for i := 0; i < w.Items; i++ {
						setPassCount(r, m, i, oracle.Threshold(w.S))
					}
				}
				id++
				scns = append(scns, Scn{ID: id, WF: name, Stream: Stream{Kind: "matrix", Seed: r.U64(), Matrix: m}, Stub: true, Chunk: mon.ChunkPlan{Kind: "whole"}, Source: srcT, Note: "uniformity-or-count decided on bytes from source=" + srcT})
			}
		}
	}
	// a stream of exactly the required length whose last bytes arrive together with io.EOF (as
	// iotest.DataErrReader, gzip and HTTP bodies do): everything required was delivered, the rule decides
	{
		r := gen.NewRng(gen.Mix(seed, 7780))
		for _, name := range seqWFs {
			w := workflows[name]
			for k, pl := range []mon.ChunkPlan{{Kind: "whole", EOFWithLast: true}, {Kind: "fixed", Size: 4096, EOFWithLast: true}} {
				m := baseMatrix(r, w.S, w.Items)
				for i := 0; i < w.Items; i++ {
					setPassCount(r, m, i, oracle.Threshold(w.S)-k*(i%2))
				}
				id++
				scns = append(scns, Scn{ID: id, WF: name, Stream: Stream{Kind: "matrix", Seed: r.U64(), Matrix: m, Tail: "none"}, Stub: true, Chunk: pl, Note: fmt.Sprintf("exact-length stream, final read returns data+EOF (%s/%d): uniformity-or-count decides", pl.Kind, pl.Size)})
			}
		}
	}
	// heavy real runs first so they overlap with the stub sweep
	sort.SliceStable(scns, func(a, b int) bool { return !scns[a].Stub && scns[b].Stub })
	var heavy, light []Scn
	for _, s := range scns {
		if !s.Stub && s.WF != "Period" {
			heavy = append(heavy, s)
		} else {
			light = append(light, s)
		}
	}
	resCh := make(chan map[int]*Res, 1)
	go func() {
		resCh <- runScenarios(heavy, runOpts{Parallel: 6, PerScn: 200 * time.Second, Label: "c07h"})
	}()
	res := runScenarios(light, runOpts{Parallel: 12, PerScn: 2 * time.Second, Label: "c07", Shuffle: gen.Mix(seed, 70707)})
	for k, v := range <-resCh {
		res[k] = v
	}
	// several detections at the same time in one process (each on its own source): a slow good run
	// overlapped by a fast failing run of the same shape, and the other way round
	{
		r := gen.NewRng(gen.Mix(seed, 7779))
		var groups [][]Scn
		pairs := [][2]string{{"Period", "Period"}, {"PowerOn", "PowerOn"}, {"Period", "PeriodFast"}, {"PowerOn", "PowerOnFast"}, {"Period", "PowerOn"}, {"Factory", "Factory"}}
		for pi, pr := range pairs {
			if pr[0] == "Factory" && !c.Thorough() {
				continue
			}
			for flip := 0; flip < 2; flip++ {
				wa, wb := workflows[pr[0]], workflows[pr[1]]
				good := baseMatrix(r, wa.S, wa.Items)
				for i := 0; i < wa.Items; i++ {
					setPassCount(r, good, i, oracle.Threshold(wa.S))
				}
				bad := baseMatrix(r, wb.S, wb.Items)
				for i := 0; i < wb.Items; i++ {
					for j := range bad {
						bad[j][i].Q = 0.95 // every Q in one bin: uniformity fails for every item
					}
				}
				a := Scn{WF: pr[0], Stream: Stream{Kind: "matrix", Seed: r.U64(), Matrix: good}, Stub: true, Chunk: mon.ChunkPlan{Kind: "whole"}, Delay: mon.DelayPlan{Mode: "slow", Seed: r.U64()}, Note: fmt.Sprintf("concurrent callers: slow %s on an accepted stream while %s judges a failing one", pr[0], pr[1])}
				b := Scn{WF: pr[1], Stream: Stream{Kind: "matrix", Seed: r.U64(), Matrix: bad}, Stub: true, Chunk: mon.ChunkPlan{Kind: "whole"}, Note: fmt.Sprintf("concurrent callers: fast %s on a failing stream", pr[1])}
				if flip == 1 {
					a.Stream.Matrix, b.Stream.Matrix = bad, good
					if wa.S != wb.S || wa.Items != wb.Items {
						continue
					}
					a.Note = fmt.Sprintf("concurrent callers: slow %s on a failing stream while %s judges an accepted one", pr[0], pr[1])
					b.Note = fmt.Sprintf("concurrent callers: fast %s on an accepted stream", pr[1])
				}
				id++
				a.ID = id
				id++
				b.ID = id
				// the fast run is started three times so that one of them falls inside the slow run's span
				b2, b3 := b, b
				id++
				b2.ID = id
				b2.Delay = mon.DelayPlan{Mode: "sleep", Seed: r.U64()}
				id++
				b3.ID = id
				b3.Delay = mon.DelayPlan{Mode: "slow", Seed: r.U64()}
				groups = append(groups, []Scn{a, b, b2, b3})
				scns = append(scns, a, b, b2, b3)
				_ = pi
			}
		}
		for k, v := range runConcGroups(groups, "c07conc", false) {
			res[k] = v
		}
		c.Count("concurrent_caller_groups", int64(len(groups)))
	}
	byID := map[int]Scn{}
	for _, s := range scns {
		byID[s.ID] = s
	}
	for _, sc := range scns {
		r := res[sc.ID]
		if r == nil {
			c.Inconclusive("no result for scenario " + sc.Note)
			continue
		}
		nontriv := !sc.Stub || strings.Contains(sc.Note, "uniformity") || strings.Contains(sc.Note, "concurrent callers") || strings.Contains(sc.Note, "fails") || strings.Contains(sc.Note, "step2")
		if strings.Contains(sc.Note, "passcount=") {
			var i, cnt, T int
			fmt.Sscanf(sc.Note, "item%d passcount=%d (T=%d)", &i, &cnt, &T)
			nontriv = cnt >= T-2 && cnt <= T+1
		}
		c.Eval(hashScn(sc), nontriv)
		c.Count("runner_calls_recorded", int64(r.RunCalls))
		c.Count("judged_samples_checked", int64(r.Judged))
		c.Count("reads_recorded", int64(r.Reads))
		if sc.Stub {
			c.Count("stub_runs", 1)
		} else {
			c.Count("real_runner_runs_"+sc.WF, 1)
		}
		if r.Status == "returned" && r.ModelKnown {
			if r.ModelOK {
				c.Count("model_verdict_true", 1)
			} else {
				c.Count("model_verdict_false", 1)
			}
		}
		if sc.Fault != nil || workflows[sc.WF].Fast {
			// first step of a history chain: only has to come back (C08/C09 judge these runs themselves)
			if r.Status != "returned" && r.Status != "timeout" {
				c.Violation(fmt.Sprintf("%s:%s:%s", sc.WF, sc.Note, r.Status), "did not return normally: "+clip(r.Crash, 1200), "wf", sc)
			}
			continue
		}
		judgeRule(c, "C07", sc, r)
		if c.NSamples() < 5 && nontriv && sc.ID%37 == 0 {
			c.Sample(sampleScn(sc, r))
		}
	}
	for _, name := range seqWFs {
		p, f := uniformityBoundary(workflows[name].S)
		c.Note("uniformity_boundary_sumsq_s"+fmt.Sprint(workflows[name].S), []int{p, f})
	}
}

// ---------- C08 ----------

func c08Streams(seed uint64, w wfInfo, thorough bool) []Stream {
	r := gen.NewRng(gen.Mix(seed, 808, uint64(w.S), uint64(w.Items)))
	T := oracle.Threshold(w.S)
	var out []Stream
	mk := func(m [][]mon.Cell, note string) {
		out = append(out, Stream{Kind: "matrix", Seed: r.U64(), Matrix: m, Tail: "fail", Period: note})
	}
	// every item's pass count exactly T: one lost or duplicated update flips the verdict
	{
		m := baseMatrix(r, w.S, w.Items)
		for i := 0; i < w.Items; i++ {
			setPassCount(r, m, i, T)
		}
		mk(m, "all items at exactly T")
	}
	{
		m := baseMatrix(r, w.S, w.Items)
		for i := 0; i < w.Items; i++ {
			setPassCount(r, m, i, T)
		}
		setPassCount(r, m, r.Intn(w.Items), T-1)
		mk(m, "one item at T-1")
	}
	pss, fss := uniformityBoundary(w.S)
	for _, ss := range []int{pss, fss} {
		m := baseMatrix(r, w.S, w.Items)
		F := occupancyWithSumSq(w.S, ss)
		for i := 0; i < w.Items; i++ {
			if ss == pss || i == w.Items-1 {
				setOccupancy(r, m, i, F, i%3)
			}
		}
		mk(m, fmt.Sprintf("uniformity sumsq=%d", ss))
	}
	{
		// only items 13..15 fail: a 12-item workflow must accept, a 15-item one must reject
		m := baseMatrix(r, w.S, 12)
		mk(m, "only items 13-15 fail")
	}
	nr := 2
	if thorough {
		nr = 8
	}
	for k := 0; k < nr; k++ {
		m := baseMatrix(r, w.S, w.Items)
		for i := 0; i < w.Items; i++ {
			if r.Intn(3) == 0 {
				setPassCount(r, m, i, T-1+r.Intn(3))
			}
		}
		mk(m, fmt.Sprintf("random %d", k))
	}
	return out
}

type c08Group struct {
	wf     string
	stream Stream
	seqID  int
	fast   []int
}

func runC08(c *ev.Ctx) {
	c.Rule = "each case = one run of a Fast workflow on a stream for which the sequential variant was also run: verdict and named failing item must match, every judged sample must be exactly one stream chunk judged once by exactly the expected items (12 for periodic), under perturbation (seeded Gosched/sleep delays inside Read and inside runners, GOMAXPROCS 1/2/4/16, 1/2/3/16 workers via taskset); the same scenarios run in a -race build and DATA RACE reports are counted. Streams are verdict-sensitive (all pass counts exactly at the threshold, uniformity at its boundary, only items 13-15 failing) plus real-runner PRNG/LFSR/biased streams; further source behaviours: 1..150 consecutive empty reads, one 10 s stall of 1300 empty reads, 60-120 ms per read, seekable reader types at non-zero positions, finite sources that end or fail exactly on a sample boundary (0, 1, S/2, S-1 whole samples) or one byte into the last sample, a failing run of another Fast workflow first in the same process. non-trivial = every Fast run (each is a separately scheduled execution); distinct = distinct (scenario descriptor, schedule signature observed)"
	c.Assumptions = []string{"the Go race detector reports only races that occur in an observed execution", "the harness reader serialises Read calls (the property's precondition)"}
	seed := uint64(c.Seed)
	var scns []Scn
	var groups []*c08Group
	id := 0
	R := 24
	if c.Thorough() {
		R = 120
	}
	delays := []string{"none", "gosched", "sleep", "mixed"}
	procs := []int{1, 2, 4, 16}
	cpuSets := []int{0, 1, 2, 3} // 0 = all CPUs
	cpuOf := map[int]int{}
	raceOf := map[int]bool{}
	var preSteps []int
	for _, fname := range []string{"PeriodFast", "PowerOnFast", "FactoryFast"} {
		w := workflows[fname]
		streams := c08Streams(seed, w, c.Thorough())
		nReal := 0
		if fname == "PeriodFast" {
			nReal = 8
			if c.Thorough() {
				nReal = 24
			}
		}
		for _, st := range realStreams(gen.Mix(seed, 88), nReal) {
			streams = append(streams, st)
		}
		for si, st := range streams {
			note := st.Period
			if st.Kind == "matrix" {
				st.Period = ""
			} else {
				note = "real " + st.Kind
			}
			g := &c08Group{wf: fname, stream: st}
			id++
			g.seqID = id
			scns = append(scns, Scn{ID: id, WF: w.Seq, Stream: st, Stub: st.Kind == "matrix", Chunk: mon.ChunkPlan{Kind: "whole"}, Note: "sequential reference: " + note})
			reps := R
			if fname == "FactoryFast" && !c.Thorough() {
				reps = R / 2
			}
			if st.Kind != "matrix" {
				reps = R / 2
			}
			for k := 0; k < reps; k++ {
				id++
				sc := Scn{ID: id, WF: fname, Stream: st, Stub: st.Kind == "matrix", Chunk: mon.ChunkPlan{Kind: "whole"},
					Delay: mon.DelayPlan{Mode: delays[k%4], Seed: gen.Mix(seed, uint64(id))}, Procs: procs[(k/4)%4], Note: fmt.Sprintf("%s rep%d", note, k)}
				cpuOf[id] = cpuSets[(k/2+si)%4]
				raceOf[id] = k%5 == 4
				if k%6 == 5 {
					// history: a failing / faulting run of some Fast workflow first, in the same process
					pre := Scn{ID: id, WF: []string{"PeriodFast", "PowerOnFast", "PeriodFast", "FactoryFast"}[(k/6+si)%4], Stub: true, Chunk: mon.ChunkPlan{Kind: "whole"}, Chain: fmt.Sprintf("c08chain%d", id), Note: "history pre-step"}
					pw := workflows[pre.WF]
					pm := baseMatrix(gen.NewRng(uint64(id)), pw.S, pw.Items)
					for i := 0; i < pw.Items; i++ {
						for j := range pm {
							pm[j][i] = mon.Cell{Pass: false, Q: 0.999}
						}
					}
					pre.Stream = Stream{Kind: "matrix", Seed: uint64(id), Matrix: pm}
					if (k/6)%2 == 1 {
						pre.Fault = &mon.FaultPlan{Offset: int64(pw.B*3 + 5), Kind: "custom", Sticky: true}
					}
					cpuOf[pre.ID] = cpuOf[id]
					raceOf[pre.ID] = raceOf[id]
					id++
					sc.ID = id
					sc.Chain = pre.Chain
					cpuOf[id] = cpuOf[pre.ID]
					raceOf[id] = raceOf[pre.ID]
					scns = append(scns, pre)
					preSteps = append(preSteps, pre.ID)
				}
				scns = append(scns, sc)
				g.fast = append(g.fast, id)
			}
			groups = append(groups, g)
		}
	}
	// sources that answer (0, nil) a number of times in a row before delivering (allowed by io.Reader,
	// "discouraged"): both variants must wait them out and judge the same bytes
	for si, stall := range []int{1, 3, 99, 100, 101, 150} {
		for _, fname := range []string{"PeriodFast", "PowerOnFast"} {
			if fname == "PowerOnFast" && si%2 == 1 && !c.Thorough() {
				continue
			}
			w := workflows[fname]
			r := gen.NewRng(gen.Mix(seed, 8088, uint64(stall), uint64(w.S)))
			m := baseMatrix(r, w.S, w.Items)
			for i := 0; i < w.Items; i++ {
				setPassCount(r, m, i, oracle.Threshold(w.S))
			}
			st := Stream{Kind: "matrix", Seed: r.U64(), Matrix: m, Tail: "fail"}
			plan := mon.ChunkPlan{Kind: "stall", Size: stall, Block: 3 + si}
			g := &c08Group{wf: fname, stream: st}
			id++
			g.seqID = id
			scns = append(scns, Scn{ID: id, WF: w.Seq, Stream: st, Stub: true, Chunk: plan, Note: fmt.Sprintf("sequential reference: stalling source (%d empty reads)", stall)})
			for k := 0; k < 3; k++ {
				id++
				scns = append(scns, Scn{ID: id, WF: fname, Stream: st, Stub: true, Chunk: plan, Delay: mon.DelayPlan{Mode: delays[k%4], Seed: uint64(id)}, Procs: procs[k%4], Note: fmt.Sprintf("stalling source (%d empty reads) rep%d", stall, k)})
				g.fast = append(g.fast, id)
			}
			groups = append(groups, g)
		}
	}
	// a polled device whose buffer stays empty for about 10 s in the middle of a sample: 1300 immediate
	// (0,nil) answers 8 ms apart, once
	{
		w := workflows["PeriodFast"]
		r := gen.NewRng(gen.Mix(seed, 8122))
		m := baseMatrix(r, w.S, w.Items)
		for i := 0; i < w.Items; i++ {
			setPassCount(r, m, i, oracle.Threshold(w.S))
		}
		st := Stream{Kind: "matrix", Seed: r.U64(), Matrix: m, Tail: "fail"}
		plan := mon.ChunkPlan{Kind: "stall", Size: 1300, Block: 8, StallSleepMs: 8, StallOnce: true}
		g := &c08Group{wf: "PeriodFast", stream: st}
		id++
		g.seqID = id
		scns = append(scns, Scn{ID: id, WF: "Period", Stream: st, Stub: true, Chunk: plan, Note: "sequential reference: source empty for 10 s (1300 empty reads)"})
		for k := 0; k < 2; k++ {
			id++
			scns = append(scns, Scn{ID: id, WF: "PeriodFast", Stream: st, Stub: true, Chunk: plan, Procs: procs[k+1], Note: fmt.Sprintf("source empty for 10 s (1300 empty reads) rep%d", k)})
			g.fast = append(g.fast, id)
		}
		groups = append(groups, g)
	}
	// a self-testing source: its first Read runs a whole PeriodDetectFast of its own before serving bytes
	for _, fname := range []string{"PeriodFast", "PowerOnFast"} {
		w := workflows[fname]
		r := gen.NewRng(gen.Mix(seed, 8133, uint64(w.B)))
		m := baseMatrix(r, w.S, w.Items)
		for i := 0; i < w.Items; i++ {
			setPassCount(r, m, i, oracle.Threshold(w.S))
		}
		st := Stream{Kind: "matrix", Seed: r.U64(), Matrix: m, Tail: "fail"}
		g := &c08Group{wf: fname, stream: st}
		id++
		g.seqID = id
		scns = append(scns, Scn{ID: id, WF: w.Seq, Stream: st, Stub: true, Chunk: mon.ChunkPlan{Kind: "whole"}, Source: "nestedfast", Note: "sequential reference: source that runs a Fast detection of its own inside Read"})
		for k := 0; k < 2; k++ {
			id++
			scns = append(scns, Scn{ID: id, WF: fname, Stream: st, Stub: true, Chunk: mon.ChunkPlan{Kind: "whole"}, Source: "nestedfast", Procs: procs[k+1], Note: fmt.Sprintf("source that runs a Fast detection of its own inside Read rep%d", k)})
			g.fast = append(g.fast, id)
		}
		groups = append(groups, g)
	}
	// a slow device: 60-120 ms per Read, a run lasts seconds; verdicts must not depend on elapsed time
	for _, fname := range []string{"PeriodFast", "PowerOnFast"} {
		w := workflows[fname]
		r := gen.NewRng(gen.Mix(seed, 8111, uint64(w.B)))
		m := baseMatrix(r, w.S, w.Items)
		for i := 0; i < w.Items; i++ {
			setPassCount(r, m, i, oracle.Threshold(w.S))
		}
		st := Stream{Kind: "matrix", Seed: r.U64(), Matrix: m, Tail: "fail"}
		g := &c08Group{wf: fname, stream: st}
		id++
		g.seqID = id
		scns = append(scns, Scn{ID: id, WF: w.Seq, Stream: st, Stub: true, Chunk: mon.ChunkPlan{Kind: "whole"}, Delay: mon.DelayPlan{Mode: "slow", Seed: uint64(id)}, Note: "sequential reference: slow source (60-120 ms per read)"})
		for k := 0; k < 2; k++ {
			id++
			scns = append(scns, Scn{ID: id, WF: fname, Stream: st, Stub: true, Chunk: mon.ChunkPlan{Kind: "whole"}, Delay: mon.DelayPlan{Mode: "slow", Seed: uint64(id)}, Procs: procs[k%4], Note: fmt.Sprintf("slow source (60-120 ms per read) rep%d", k)})
			g.fast = append(g.fast, id)
		}
		groups = append(groups, g)
	}
	// seekable / random-access reader types at a non-zero start position
	for si, srcT := range []string{"bytes", "file", "bufio"} {
		for _, fname := range []string{"PeriodFast", "PowerOnFast", "FactoryFast"} {
			if fname == "FactoryFast" && si != 0 && !c.Thorough() {
				continue
			}
			w := workflows[fname]
			r := gen.NewRng(gen.Mix(seed, 8099, uint64(si), uint64(w.S), uint64(w.B)))
			m := baseMatrix(r, w.S, w.Items)
			for i := 0; i < w.Items; i++ {
				setPassCount(r, m, i, oracle.Threshold(w.S))
			}
			st := Stream{Kind: "matrix", Seed: r.U64(), Matrix: m, Tail: "fail"}
			pre := []int{w.B, 7, 3*w.B + 1}[si]
			g := &c08Group{wf: fname, stream: st}
			id++
			g.seqID = id
			scns = append(scns, Scn{ID: id, WF: w.Seq, Stream: st, Stub: true, Chunk: mon.ChunkPlan{Kind: "whole"}, Source: srcT, Prefix: pre, Note: fmt.Sprintf("sequential reference: source=%s start=%d", srcT, pre)})
			for k := 0; k < 3; k++ {
				id++
				scns = append(scns, Scn{ID: id, WF: fname, Stream: st, Stub: true, Chunk: mon.ChunkPlan{Kind: "whole"}, Source: srcT, Prefix: pre, Delay: mon.DelayPlan{Mode: delays[k%4], Seed: uint64(id)}, Procs: procs[k%4], Note: fmt.Sprintf("source=%s start=%d rep%d", srcT, pre, k)})
				raceOf[id] = k == 2
				g.fast = append(g.fast, id)
			}
			groups = append(groups, g)
		}
	}
	// finite sources that end (clean EOF) or fail exactly on a sample boundary, short of the full set (0, 1, S/2,
	// S-1 whole samples), and one cut inside a sample: the sequential variant rejects with the read error, and
	// the Fast variant must give that verdict too rather than judge the samples it happened to get
	for _, fname := range []string{"PeriodFast", "PowerOnFast", "FactoryFast"} {
		w := workflows[fname]
		type cut struct {
			off    int64
			kind   string
			sticky bool
		}
		cuts := []cut{{0, "eof", true}, {int64(w.B), "eof", false}, {int64(w.B * (w.S / 2)), "custom", true}, {int64(w.B * (w.S - 1)), "eof", true}, {int64(w.B*(w.S-1)) + 1, "eof", true}}
		if fname == "FactoryFast" && !c.Thorough() {
			cuts = cuts[3:4]
		}
		for ci, ct := range cuts {
			r := gen.NewRng(gen.Mix(seed, 8155, uint64(ci), uint64(w.S), uint64(w.B)))
			m := baseMatrix(r, w.S, w.Items)
			st := Stream{Kind: "matrix", Seed: r.U64(), Matrix: m, Tail: "fail"}
			fp := &mon.FaultPlan{Offset: ct.off, Kind: ct.kind, Sticky: ct.sticky}
			what := fmt.Sprintf("source ends (%s, sticky=%v) at byte %d = %d whole samples + %d", ct.kind, ct.sticky, ct.off, ct.off/int64(w.B), ct.off%int64(w.B))
			g := &c08Group{wf: fname, stream: st}
			id++
			g.seqID = id
			scns = append(scns, Scn{ID: id, WF: w.Seq, Stream: st, Stub: true, Chunk: mon.ChunkPlan{Kind: "whole"}, Fault: fp, Note: "sequential reference: " + what})
			for k := 0; k < 3; k++ {
				id++
				scns = append(scns, Scn{ID: id, WF: fname, Stream: st, Stub: true, Chunk: mon.ChunkPlan{Kind: "whole"}, Fault: fp, Delay: mon.DelayPlan{Mode: delays[k%4], Seed: uint64(id)}, Procs: procs[(k+ci)%4], Note: fmt.Sprintf("%s rep%d", what, k)})
				raceOf[id] = k == 2 && ci == 3
				g.fast = append(g.fast, id)
			}
			groups = append(groups, g)
		}
	}
	// real 10^6-bit PowerOnDetectFast (+race) in the thorough tier
	if c.Thorough() {
		st := Stream{Kind: "prng", Seed: gen.Mix(seed, 89)}
		g := &c08Group{wf: "PowerOnFast", stream: st}
		id++
		g.seqID = id
		scns = append(scns, Scn{ID: id, WF: "PowerOn", Stream: st, Chunk: mon.ChunkPlan{Kind: "whole"}, Note: "sequential reference: real prng 10^6-bit"})
		for k := 0; k < 2; k++ {
			id++
			scns = append(scns, Scn{ID: id, WF: "PowerOnFast", Stream: st, Chunk: mon.ChunkPlan{Kind: "whole"}, Delay: mon.DelayPlan{Mode: "mixed", Seed: uint64(id)}, Note: fmt.Sprintf("real prng 10^6-bit rep%d", k)})
			raceOf[id] = k == 1
			g.fast = append(g.fast, id)
		}
		groups = append(groups, g)
	}
	// partition by (cpus, race)
	type part struct {
		cpus int
		race bool
	}
	parts := map[part][]Scn{}
	for _, s := range scns {
		p := part{cpuOf[s.ID], raceOf[s.ID]}
		parts[p] = append(parts[p], s)
	}
	res := map[int]*Res{}
	type pr struct {
		p part
		m map[int]*Res
	}
	ch := make(chan pr, len(parts))
	for p, list := range parts {
		go func(p part, list []Scn) {
			per := 3 * time.Second
			for _, s := range list {
				if !s.Stub && s.WF != "Period" && s.WF != "PeriodFast" {
					per = 400 * time.Second
				}
			}
			if p.race {
				per *= 8
			}
			par := 4
			if p.cpus > 0 {
				par = 2
			}
			ch <- pr{p, runScenarios(list, runOpts{Race: p.race, CPUs: p.cpus, Parallel: par, PerScn: per, Label: fmt.Sprintf("c08-c%d-r%v", p.cpus, p.race), Shuffle: gen.Mix(seed, 80808, uint64(p.cpus))})}
		}(p, list)
	}
	for range parts {
		x := <-ch
		for k, v := range x.m {
			res[k] = v
		}
	}
	// several Fast workflows at the same time in one process, each on its own source (a slow run on an
	// accepted stream overlapped by runs on a failing stream, and the other way round): what is shared
	// between concurrent parallel detections must not leak from one into the other
	{
		r := gen.NewRng(gen.Mix(seed, 8844))
		var cg [][]Scn
		var cscns []Scn
		for _, pr := range [][2]string{{"PeriodFast", "PeriodFast"}, {"PowerOnFast", "PowerOnFast"}, {"PeriodFast", "PowerOnFast"}, {"PeriodFast", "Period"}} {
			for flip := 0; flip < 2; flip++ {
				wa, wb := workflows[pr[0]], workflows[pr[1]]
				if flip == 1 && (wa.S != wb.S || wa.Items != wb.Items) {
					continue
				}
				good := baseMatrix(r, wa.S, wa.Items)
				for i := 0; i < wa.Items; i++ {
					setPassCount(r, good, i, oracle.Threshold(wa.S))
				}
				bad := baseMatrix(r, wb.S, wb.Items)
				for i := 0; i < wb.Items; i++ {
					for j := range bad {
						bad[j][i].Q = 0.95
					}
				}
				ma, mb, what := good, bad, "accepted stream while the other judges a failing one"
				if flip == 1 {
					ma, mb, what = bad, good, "failing stream while the other judges an accepted one"
				}
				var g []Scn
				id++
				g = append(g, Scn{ID: id, WF: pr[0], Stream: Stream{Kind: "matrix", Seed: r.U64(), Matrix: ma}, Stub: true, Chunk: mon.ChunkPlan{Kind: "whole"}, Delay: mon.DelayPlan{Mode: "slow", Seed: r.U64()}, Note: fmt.Sprintf("concurrent detections: slow %s on an %s (%s)", pr[0], what, pr[1])})
				for k, mode := range []string{"none", "sleep", "slow"} {
					id++
					g = append(g, Scn{ID: id, WF: pr[1], Stream: Stream{Kind: "matrix", Seed: r.U64(), Matrix: mb}, Stub: true, Chunk: mon.ChunkPlan{Kind: "whole"}, Delay: mon.DelayPlan{Mode: mode, Seed: r.U64()}, Note: fmt.Sprintf("concurrent detections: %s next to a slow %s, start %d", pr[1], pr[0], k)})
				}
				cg = append(cg, g)
				cscns = append(cscns, g...)
			}
		}
		plain := runConcGroups(cg, "c08conc", false)
		var raced map[int]*Res
		if !c.Lite() {
			raced = runConcGroups(cg, "c08concr", true)
		}
		c.Count("concurrent_detection_groups", int64(len(cg)))
		for _, pass := range []struct {
			name string
			m    map[int]*Res
		}{{"", plain}, {" [-race build]", raced}} {
			if pass.m == nil {
				continue
			}
			for _, sc := range cscns {
				rr := pass.m[sc.ID]
				key := fmt.Sprintf("%s:%s%s", sc.WF, sc.Note, pass.name)
				if rr == nil {
					c.Inconclusive("no result: " + key)
					continue
				}
				c.Eval(ev.HashStr(key), true)
				c.Count("fast_runs_next_to_another_detection", 1)
				if rr.Status == "timeout" {
					c.Inconclusive(key + ": watchdog fired")
					continue
				}
				if rr.Status != "returned" {
					c.Violation(key+":"+rr.Status, fmt.Sprintf("%s did not return normally while another detection ran in the same process (%s): %s", sc.WF, rr.Status, clip(rr.Crash, 1500)), "wf", sc)
					continue
				}
				if rr.ModelKnown && !rr.ModelAmbig && rr.Verdict != rr.ModelOK {
					c.Violation(key+":verdict", fmt.Sprintf("%s verdict %v (err %q) next to another detection; the decision rule on its own samples says %v", sc.WF, rr.Verdict, rr.Err, rr.ModelOK), "wf", sc)
				}
				if rr.Verdict != !rr.HasErr {
					c.Violation(key+":verdict-error-mismatch", fmt.Sprintf("verdict=%v err=%q", rr.Verdict, rr.Err), "wf", sc)
				}
			}
		}
	}
	byID := map[int]Scn{}
	for _, s := range scns {
		byID[s.ID] = s
	}
	for _, pid := range preSteps {
		if r := res[pid]; r != nil && r.Status != "returned" && r.Status != "timeout" {
			c.Violation(fmt.Sprintf("%s:history pre-step:%s", byID[pid].WF, r.Status), "did not return normally: "+clip(r.Crash, 1200), "wf", byID[pid])
		}
	}
	c.Count("history_chains", int64(len(preSteps)))
	sigs := map[string]bool{}
	workersSeen := map[int]bool{}
	for _, g := range groups {
		sq := res[g.seqID]
		seqSc := byID[g.seqID]
		if sq == nil || sq.Status != "returned" {
			st := "missing"
			if sq != nil {
				st = sq.Status
			}
			if st == "timeout" || st == "missing" {
				c.Inconclusive("sequential reference undecided: " + seqSc.Note)
			} else {
				c.Violation(fmt.Sprintf("%s:%s:%s", seqSc.WF, seqSc.Note, st), "sequential workflow did not return: "+clip(sq.Crash, 1200), "wf", seqSc)
			}
			continue
		}
		for _, fid := range g.fast {
			sc := byID[fid]
			r := res[fid]
			if r == nil {
				c.Inconclusive("no result: " + sc.Note)
				continue
			}
			key := fmt.Sprintf("%s:%s", sc.WF, sc.Note)
			c.Eval(ev.HashStr(fmt.Sprintf("%d|%s", hashScn(sc), r.Sig)), true)
			c.Count("fast_runs", 1)
			if raceOf[fid] {
				c.Count("fast_runs_under_race_detector", 1)
			}
			c.Count("runner_calls_recorded", int64(r.RunCalls))
			c.Count("judged_samples_checked", int64(r.Judged))
			switch r.Status {
			case "returned":
			case "timeout":
				c.Inconclusive(key + ": watchdog fired")
				continue
			default:
				c.Violation(key+":"+r.Status, fmt.Sprintf("%s did not return normally (%s): %s", sc.WF, r.Status, clip(r.Crash, 1500)), "wf", sc)
				continue
			}
			if r.Sig != "" {
				sigs[r.Sig] = true
			}
			workersSeen[r.Workers] = true
			if r.Verdict != sq.Verdict {
				c.Violation(key+":verdict", fmt.Sprintf("%s verdict %v (err %q) but %s verdict %v (err %q) on the same stream", sc.WF, r.Verdict, r.Err, seqSc.WF, sq.Verdict, sq.Err), "wf", sc)
			} else if !r.Verdict && errItem(r.Err) != errItem(sq.Err) {
				c.Violation(key+":error-item", fmt.Sprintf("%s names %q, %s names %q", sc.WF, r.Err, seqSc.WF, sq.Err), "wf", sc)
			}
			if r.Verdict != !r.HasErr {
				c.Violation(key+":verdict-error-mismatch", fmt.Sprintf("verdict=%v err=%q", r.Verdict, r.Err), "wf", sc)
			}
			for _, p := range r.Problems {
				c.Violation(key+":history", p, "wf", sc)
				break
			}
			if len(r.Leaked) > 0 {
				c.Violation(key+":leak", "goroutines of the module left blocked after return:\n"+strings.Join(r.Leaked, "\n"), "wf", sc)
			}
			if c.NSamples() < 5 && fid%41 == 0 {
				s := sampleScn(sc, r)
				s["schedule_signature"] = r.Sig
				s["sequential"] = map[string]interface{}{"verdict": sq.Verdict, "err": sq.Err}
				c.Sample(s)
			}
		}
	}
	total, distinct, sample := raceReports(os.Getenv("VERIF_WORK"))
	c.Count("race_detector_reports", int64(total))
	c.Note("distinct_schedule_signatures", len(sigs))
	var ws []int
	for w := range workersSeen {
		ws = append(ws, w)
	}
	sort.Ints(ws)
	c.Note("distinct_worker_counts_that_judged_samples", ws)
	if total > 0 {
		keys := []string{}
		for k := range distinct {
			keys = append(keys, k)
		}
		sort.Strings(keys)
		for _, k := range keys {
			c.Violation("race:"+k, fmt.Sprintf("%d DATA RACE report(s), first:\n%s", distinct[k], sample), "race", k)
		}
	}
}

// ---------- C09 ----------

var allWFs = []string{"Factory", "PowerOn", "Period", "FactoryFast", "PowerOnFast", "PeriodFast"}

func runC09(c *ev.Ctx) {
	c.Rule = "each case = one workflow run against a source that fails at a chosen byte offset with a chosen failure kind (io.EOF, io.ErrUnexpectedEOF, custom error, temporary-class error with Temporary()/Timeout() true, syscall.EAGAIN, error returned together with a partial read; sticky and transient - a transient error-with-data only mid-sample, where io.ReadFull must report it). Offsets: 0, 1, B-1, B, B+1, sample boundaries jB and jB+-1, last sample start/middle/end-1, round absolute positions (multiples of 4096, 65536, 2^20, 10^6), seeded offsets; whole and short reads; single-shot requests from 16 to 8*10^6+ bytes failing at multiples of 10^6, 2^20, 4*10^6, 2^22. Every judged sample must still be a chunk of the stream. Verdict per case: returned (Go runtime deadlock detector / parked-goroutine dump decide hangs; watchdog alone is inconclusive), verdict false, error non-nil, no goroutine of the module left blocked (census), bounded number of events after the fault. non-trivial = the fault actually fired before the workflow returned; distinct = distinct (workflow, offset, kind, sticky, perturbation)"
	c.Assumptions = []string{"Go runtime deadlock detector (plain child binary, no timers alive)", "stub runners (registry seam) keep a full Factory run at milliseconds so fault points can be enumerated densely; a separate pass uses real runners for Period"}
	seed := uint64(c.Seed)
	var scns []Scn
	id := 0
	raceOf := map[int]bool{}
	kinds := []struct {
		k      string
		sticky bool
	}{{"eof", true}, {"ueof", true}, {"custom", true}, {"partial", true}, {"eof", false}, {"ueof", false}, {"custom", false}, {"partial", false}, {"temporary", false}, {"eagain", false}, {"temporary", true}, {"eintr", true}, {"eintr", false}, {"wrapped-eintr", true}, {"wrapped-eintr", false}}
	nSeeded := 30
	if c.Thorough() {
		nSeeded = 400
	}
	for _, name := range allWFs {
		w := workflows[name]
		need := int64(w.S * w.B)
		B := int64(w.B)
		r := gen.NewRng(gen.Mix(seed, 909, uint64(len(name)), uint64(w.S)))
		offs := map[int64]bool{0: true, 1: true, B - 1: true, B: true, B + 1: true, need - B: true, need - B/2: true, need - 1: true, need - 2: true, need - B - 1: true, need - B + 1: true}
		step := 1
		if !c.Thorough() && w.S == 50 {
			step = 5
		}
		for j := 1; j < w.S; j += step {
			offs[int64(j)*B] = true
			offs[int64(j)*B-1] = true
			offs[int64(j)*B+1] = true
		}
		for k := 0; k < nSeeded; k++ {
			offs[int64(r.Intn(int(need)))] = true
		}
		for _, unit := range []int64{4096, 65536, 1 << 20, 1000000} {
			for k := 0; k < 4; k++ {
				if m := unit * int64(1+r.Intn(int(need/unit)+1)); m < need {
					offs[m] = true
				}
			}
		}
		var ol []int64
		for o := range offs {
			if o >= 0 && o < need {
				ol = append(ol, o)
			}
		}
		sort.Slice(ol, func(a, b int) bool { return ol[a] < ol[b] })
		m := baseMatrix(r, w.S, w.Items)
		st := Stream{Kind: "matrix", Seed: r.U64(), Matrix: m, Tail: "random"}
		for oi, o := range ol {
			for ki, k := range kinds {
				if !c.Thorough() && oi%2 == 1 && ki >= 4 && ki < 7 {
					continue
				}
				if k.k == "partial" && !k.sticky && o%B == 0 {
					// a transient error that arrives together with the LAST byte a sample needed may
					// legitimately go unseen (io.ReadFull drops it by contract): only injected mid-sample
					continue
				}
				id++
				sc := Scn{ID: id, WF: name, Stream: st, Stub: true, Chunk: mon.ChunkPlan{Kind: "whole"},
					Fault: &mon.FaultPlan{Offset: o, Kind: k.k, Sticky: k.sticky}, Note: fmt.Sprintf("fault@%d %s sticky=%v", o, k.k, k.sticky)}
				if w.Fast {
					sc.Delay = mon.DelayPlan{Mode: []string{"none", "gosched", "mixed"}[id%3], Seed: uint64(id)}
					sc.Procs = []int{0, 1, 2, 4}[(id/3)%4]
				}
				switch (oi + 2*ki) % 7 {
				case 0:
					sc.Chunk = mon.ChunkPlan{Kind: "fixed", Size: 997}
				case 3:
					sc.Chunk = mon.ChunkPlan{Kind: "random", Seed: uint64(id)}
				case 5:
					sc.Chunk = mon.ChunkPlan{Kind: "fixed", Size: w.B/2 + 1}
				}
				raceOf[id] = w.Fast && (oi*7+ki)%9 == 0
				scns = append(scns, sc)
			}
		}
		// real runners: Period family only (cheap)
		if w.B == 2500 {
			for k := 0; k < 16; k++ {
				id++
				o := int64(r.Intn(int(need)))
				kk := kinds[k%len(kinds)]
				if o%B == 0 {
					o++
				}
				scns = append(scns, Scn{ID: id, WF: name, Stream: Stream{Kind: "prng", Seed: r.U64()}, Chunk: mon.ChunkPlan{Kind: "whole"},
					Fault: &mon.FaultPlan{Offset: o, Kind: kk.k, Sticky: kk.sticky}, Note: fmt.Sprintf("real runners fault@%d %s sticky=%v", o, kk.k, kk.sticky)})
			}
		}
	}
	// SingleDetect
	{
		r := gen.NewRng(gen.Mix(seed, 910))
		for _, nb := range []int{16, 17, 40, 100, 1280, 4096, 65536} {
			offs := []int64{0, 1, int64(nb) / 2, int64(nb) - 1}
			for k := 0; k < 4; k++ {
				offs = append(offs, int64(r.Intn(nb)))
			}
			for _, o := range offs {
				for _, k := range kinds {
					id++
					scns = append(scns, Scn{ID: id, WF: "Single", NumByte: nb, Stream: Stream{Kind: "prng", Seed: r.U64(), Tail: "random", Extra: 64}, Chunk: mon.ChunkPlan{Kind: []string{"whole", "fixed"}[id%2], Size: 7},
						Fault: &mon.FaultPlan{Offset: o, Kind: k.k, Sticky: k.sticky}, Note: fmt.Sprintf("numByte=%d fault@%d %s sticky=%v", nb, o, k.k, k.sticky)})
				}
			}
		}
	}
	// very large single-shot requests, failing at round absolute positions (multiples of 10^6, 2^20,
	// 4*10^6, 2^22: natural block sizes of chunked readers) and next to them
	{
		r := gen.NewRng(gen.Mix(seed, 911))
		sizes := []int{8000000, 1<<23 + 5}
		if c.Thorough() {
			sizes = append(sizes, 5000000, 1<<25+12345, 40<<20)
		}
		for _, nb := range sizes {
			offs := map[int64]bool{}
			for _, unit := range []int64{1000000, 1 << 20, 4000000, 1 << 22} {
				for m := unit; m < int64(nb); m += unit {
					offs[m] = true
					if r.Intn(4) == 0 {
						offs[m-1] = true
						offs[m+1] = true
					}
				}
			}
			var ol []int64
			for o := range offs {
				ol = append(ol, o)
			}
			sort.Slice(ol, func(a, b int) bool { return ol[a] < ol[b] })
			for oi, o := range ol {
				for ki := 0; ki < 3; ki++ { // eof / ueof / custom, sticky
					if o%1000000 != 0 && o%(1<<20) != 0 && ki != oi%3 {
						continue // neighbours of the round positions: one kind each
					}
					k := kinds[ki]
					id++
					scns = append(scns, Scn{ID: id, WF: "Single", NumByte: nb, Stream: Stream{Kind: "prng", Seed: r.U64(), Tail: "random", Extra: 64}, Chunk: mon.ChunkPlan{Kind: []string{"whole", "fixed"}[(oi+ki)%2], Size: 65536},
						Fault: &mon.FaultPlan{Offset: o, Kind: k.k, Sticky: true}, Note: fmt.Sprintf("numByte=%d fault@%d %s sticky=true", nb, o, k.k)})
				}
			}
		}
	}
	var plain, race []Scn
	for _, s := range scns {
		if raceOf[s.ID] {
			race = append(race, s)
		} else {
			plain = append(plain, s)
		}
	}
	// plain pass first: hangs are decided there by the runtime's deadlock detector (which does not
	// fire under -race); workflows that hung are left out of the race pass, whose watchdog could
	// only say "inconclusive" after a long wait.
	res := runScenarios(plain, runOpts{Parallel: 12, PerScn: time.Second, Label: "c09", Shuffle: gen.Mix(seed, 90909)})
	hungWF := map[string]bool{}
	for _, s := range plain {
		if r := res[s.ID]; r != nil && (r.Status == "deadlock" || r.Status == "hang" || r.Status == "timeout") {
			hungWF[s.WF] = true
		}
	}
	var race2 []Scn
	for _, s := range race {
		if hungWF[s.WF] {
			c.Count("race_scenarios_skipped_because_workflow_hangs", 1)
			delete(raceOf, s.ID)
			continue
		}
		race2 = append(race2, s)
	}
	for k, v := range runScenarios(race2, runOpts{Race: true, Parallel: 8, PerScn: time.Second, Label: "c09r", Shuffle: gen.Mix(seed, 90910)}) {
		res[k] = v
	}
	for _, sc := range scns {
		r := res[sc.ID]
		if r == nil {
			if !hungWF[sc.WF] {
				c.Inconclusive("no result: " + sc.Note)
			}
			continue
		}
		key := fmt.Sprintf("%s:%s", sc.WF, sc.Note)
		c.Count("fault_scenarios_"+sc.WF, 1)
		if raceOf[sc.ID] {
			c.Count("scenarios_under_race_detector", 1)
		}
		switch r.Status {
		case "returned":
		case "deadlock", "hang":
			c.Eval(hashScn(sc), true)
			c.Count("hangs_decided_by_"+r.Status, 1)
			c.Violation(key+":hang", fmt.Sprintf("%s never returned after the source failed (%s):\n%s", sc.WF, r.Status, clip(r.Crash, 1800)), "wf", sc)
			continue
		case "timeout":
			c.Eval(hashScn(sc), false)
			c.Inconclusive(key + ": watchdog fired without a parked-goroutine verdict")
			continue
		default:
			c.Eval(hashScn(sc), true)
			c.Violation(key+":"+r.Status, fmt.Sprintf("%s crashed: %s", sc.WF, clip(r.Crash, 1800)), "wf", sc)
			continue
		}
		c.Eval(hashScn(sc), r.FaultFired)
		if !r.FaultFired {
			c.Count("fault_never_reached", 1)
			// the workflow returned without ever asking for the byte at the fault offset: only legitimate if it failed for another reason
			if r.Verdict {
				c.Violation(key+":short-consumption", fmt.Sprintf("%s returned true after consuming only %d bytes (fault at %d never reached)", sc.WF, r.Delivered, sc.Fault.Offset), "wf", sc)
			}
			continue
		}
		c.Count("events_after_fault_observed", int64(r.PostEvents))
		if r.Verdict {
			c.Violation(key+":pass", fmt.Sprintf("%s returned TRUE although the source failed at byte %d (err=%q)", sc.WF, sc.Fault.Offset, r.Err), "wf", sc)
		} else if !r.HasErr {
			c.Violation(key+":nil-error", fmt.Sprintf("%s returned false with a nil error after the source failed", sc.WF), "wf", sc)
		}
		if len(r.Leaked) > 0 {
			c.Violation(key+":leak", "goroutines of the module left blocked after return:\n"+clip(strings.Join(r.Leaked, "\n"), 1500), "wf", sc)
		}
		for _, p := range r.Problems {
			c.Violation(key+":history", p, "wf", sc)
			break
		}
		if r.CensusUnd {
			c.Count("census_undecided", 1)
		}
		if sc.WF != "Single" && sc.Chunk.Kind == "whole" {
			w := workflows[sc.WF]
			bound := w.S*(w.Items+1) + 2*w.S
			if r.PostEvents > bound {
				c.Violation(key+":unbounded", fmt.Sprintf("%d reader/runner events after the fault (bound %d)", r.PostEvents, bound), "wf", sc)
			}
		}
		if c.NSamples() < 5 && sc.ID%211 == 0 {
			s := sampleScn(sc, r)
			s["events_after_fault"] = r.PostEvents
			c.Sample(s)
		}
	}
	total, distinct, sample := raceReports(os.Getenv("VERIF_WORK"))
	c.Count("race_detector_reports", int64(total))
	for k, n := range distinct {
		c.Violation("race:"+k, fmt.Sprintf("%d DATA RACE report(s) in failing-source scenarios, first:\n%s", n, sample), "race", k)
	}
}

// ---------- C10 ----------

func runC10(c *ev.Ctx) {
	c.Rule = "each case = one workflow run on a stream delivered under a read-size plan (whole buffers, 1-byte reads, prime 997, prime 7919, seeded random sizes, source chunks straddling sample boundaries by 1/7/B-1 bytes, final read returning data together with io.EOF) or through another concrete reader type (bytes.Reader, os.File, bufio.Reader, io.LimitedReader) starting at a non-zero position; single-shot requests up to 2^25+12345 bytes (2^26 thorough). Oracles: sample-history checker (every judged sample is exactly one stream chunk of consecutive fresh bytes, each chunk judged once) and verdict/failing-item equality across the plans of one stream; SingleDetect: exactly numByte bytes consumed and equal verdicts. Fast variants additionally run under delay plans. non-trivial = a plan that actually produced short reads (reads > samples); distinct = distinct (workflow, stream, plan, perturbation)"
	c.Assumptions = []string{"the harness reader serialises Read calls", "stub runners decode the result matrix from the sample, so a single stale byte in the coded region or tag changes what is judged; the full-sample hash catches stale bytes anywhere"}
	seed := uint64(c.Seed)
	var scns []Scn
	id := 0
	type grp struct {
		wf  string
		ids []int
	}
	var groups []*grp
	raceOf := map[int]bool{}
	for _, name := range allWFs {
		w := workflows[name]
		r := gen.NewRng(gen.Mix(seed, 1010, uint64(len(name)), uint64(w.S)))
		T := oracle.Threshold(w.S)
		var streams []Stream
		{
			m := baseMatrix(r, w.S, w.Items)
			for i := 0; i < w.Items; i++ {
				setPassCount(r, m, i, T)
			}
			streams = append(streams, Stream{Kind: "matrix", Seed: r.U64(), Matrix: m, Tail: "random"})
			m2 := baseMatrix(r, w.S, w.Items)
			setPassCount(r, m2, r.Intn(w.Items), T-1)
			streams = append(streams, Stream{Kind: "matrix", Seed: r.U64(), Matrix: m2, Tail: "fail"})
			_, fss := uniformityBoundary(w.S)
			m3 := baseMatrix(r, w.S, w.Items)
			setOccupancy(r, m3, r.Intn(w.Items), occupancyWithSumSq(w.S, fss), 1)
			streams = append(streams, Stream{Kind: "matrix", Seed: r.U64(), Matrix: m3, Tail: "random"})
		}
		if w.B == 2500 {
			streams = append(streams, realStreams(gen.Mix(seed, 1011), 4)...)
		}
		plans := []mon.ChunkPlan{{Kind: "whole"}, {Kind: "fixed", Size: 997}, {Kind: "fixed", Size: 7919}, {Kind: "random", Seed: r.U64()}, {Kind: "random", Seed: r.U64()},
			{Kind: "straddle", Size: 1, Block: w.B}, {Kind: "straddle", Size: 7, Block: w.B}, {Kind: "straddle", Size: w.B - 1, Block: w.B}, {Kind: "fixed", Size: w.B - 1}, {Kind: "fixed", Size: w.B/2 + 1}}
		if w.B == 2500 || (c.Thorough() && w.S == 20) {
			plans = append(plans, mon.ChunkPlan{Kind: "fixed", Size: 1})
		} else {
			plans = append(plans, mon.ChunkPlan{Kind: "fixed", Size: 64})
		}
		if c.Thorough() && w.S == 50 {
			plans = append(plans, mon.ChunkPlan{Kind: "fixed", Size: 13})
		}
		for _, st := range streams {
			g := &grp{wf: name}
			for pi, pl := range plans {
				reps := 1
				if w.Fast {
					reps = 2
					if c.Thorough() {
						reps = 5
					}
				}
				for k := 0; k < reps; k++ {
					id++
					sc := Scn{ID: id, WF: name, Stream: st, Stub: st.Kind == "matrix", Chunk: pl, Note: fmt.Sprintf("%s plan=%s/%d rep%d", st.Kind, pl.Kind, pl.Size, k)}
					if w.Fast {
						sc.Delay = mon.DelayPlan{Mode: []string{"none", "mixed", "gosched", "sleep"}[(pi+k)%4], Seed: uint64(id)}
						sc.Procs = []int{0, 2, 1, 4}[(pi+k)%4]
						if pl.Size == 1 {
							sc.Delay.Mode = "none" // 50000 delayed reads would only add wall time
						}
						raceOf[id] = (pi+k)%6 == 5 && pl.Size != 1
					}
					scns = append(scns, sc)
					g.ids = append(g.ids, id)
				}
			}
			// the stream ends exactly with the last required byte and the final Read returns io.EOF
			// together with those bytes: everything required was delivered, the verdict must not change
			for pi, pl := range []mon.ChunkPlan{{Kind: "whole", EOFWithLast: true}, {Kind: "fixed", Size: 997, EOFWithLast: true}, {Kind: "fixed", Size: w.B - 1, EOFWithLast: true}} {
				id++
				st2 := st
				st2.Tail = "none"
				sc := Scn{ID: id, WF: name, Stream: st2, Stub: st.Kind == "matrix", Chunk: pl, Note: fmt.Sprintf("%s plan=%s/%d final read returns data+EOF", st.Kind, pl.Kind, pl.Size)}
				if w.Fast {
					sc.Delay = mon.DelayPlan{Mode: []string{"none", "mixed", "gosched"}[pi], Seed: uint64(id)}
				}
				scns = append(scns, sc)
				g.ids = append(g.ids, id)
			}
			// the same bytes through other concrete reader types, from a non-zero start position
			// (readers that also implement io.ReaderAt / io.Seeker / io.ByteReader invite fast paths)
			for si, srcT := range []string{"bytes", "file", "bufio", "limited"} {
				for pi, pre := range []int{0, 1, w.B + 3} {
					if !c.Thorough() && w.S == 50 && (si+pi)%2 == 1 {
						continue
					}
					id++
					sc := Scn{ID: id, WF: name, Stream: st, Stub: st.Kind == "matrix", Chunk: mon.ChunkPlan{Kind: "whole"}, Source: srcT, Prefix: pre, Note: fmt.Sprintf("%s source=%s start=%d", st.Kind, srcT, pre)}
					if w.Fast {
						sc.Delay = mon.DelayPlan{Mode: []string{"none", "mixed"}[(si+pi)%2], Seed: uint64(id)}
					}
					scns = append(scns, sc)
					g.ids = append(g.ids, id)
				}
			}
			groups = append(groups, g)
		}
	}
	// SingleDetect under chunk plans
	var singles [][]int
	{
		r := gen.NewRng(gen.Mix(seed, 1012))
		for _, nb := range []int{16, 39, 40, 1279, 1280, 4096, 10000} {
			for k := 0; k < 3; k++ {
				st := Stream{Kind: "biased", Seed: r.U64(), Bias: 470 + r.Intn(60), Tail: "random", Extra: 4096}
				var ids []int
				for _, pl := range []mon.ChunkPlan{{Kind: "whole"}, {Kind: "fixed", Size: 1}, {Kind: "fixed", Size: 7}, {Kind: "random", Seed: r.U64()}, {Kind: "fixed", Size: nb - 1}} {
					id++
					scns = append(scns, Scn{ID: id, WF: "Single", NumByte: nb, Stream: st, Chunk: pl, Note: fmt.Sprintf("numByte=%d plan=%s/%d", nb, pl.Kind, pl.Size)})
					ids = append(ids, id)
				}
				for _, pl := range []mon.ChunkPlan{{Kind: "whole", EOFWithLast: true}, {Kind: "fixed", Size: 7, EOFWithLast: true}} {
					id++
					st2 := st
					st2.Tail = "none"
					scns = append(scns, Scn{ID: id, WF: "Single", NumByte: nb, Stream: st2, Chunk: pl, Note: fmt.Sprintf("numByte=%d plan=%s/%d final read returns data+EOF", nb, pl.Kind, pl.Size)})
					ids = append(ids, id)
				}
				singles = append(singles, ids)
			}
		}
	}
	// single-shot requests through other reader types, several calls in a row on the same source: call k
	// must judge chunk k (good and all-zero chunks alternate), and exactly numByte bytes are consumed per call
	var seqSingles []int
	{
		r := gen.NewRng(gen.Mix(seed, 1014))
		for _, nb := range []int{16, 100, 1280, 4096} {
			for _, srcT := range []string{"", "bytes", "file", "bufio", "bufiobig", "limited", "pipe"} {
				id++
				period := make([]byte, 2*nb)
				copy(period, r.Bytes(nb)) // a good chunk followed by an all-zero chunk
				scns = append(scns, Scn{ID: id, WF: "Single", NumByte: nb, Repeat: 6, Source: srcT, Stream: Stream{Kind: "periodic", Period: hex.EncodeToString(period), Extra: 5 * nb, Tail: ""}, Chunk: mon.ChunkPlan{Kind: "whole"}, Note: fmt.Sprintf("numByte=%d x6 calls on one source=%q", nb, srcT)})
				seqSingles = append(seqSingles, id)
			}
		}
	}
	// very large single-shot requests under short reads (sizes around 2^23 and 2^25, where readers and
	// entropy sources start to split requests)
	{
		r := gen.NewRng(gen.Mix(seed, 1013))
		sizes := []int{8000000, 1<<25 - 1, 1 << 25, 1<<25 + 12345}
		if c.Thorough() {
			sizes = append(sizes, 5000000, 40<<20, 1<<26+1, 1<<30+4096)
		}
		for _, nb := range sizes {
			st := Stream{Kind: "prng", Seed: r.U64(), Tail: "random", Extra: 4096}
			var ids []int
			for _, pl := range []mon.ChunkPlan{{Kind: "whole"}, {Kind: "fixed", Size: 65536}, {Kind: "fixed", Size: 4096}, {Kind: "fixed", Size: 509}, {Kind: "random", Seed: r.U64()}, {Kind: "fixed", Size: nb - 1}} {
				id++
				scns = append(scns, Scn{ID: id, WF: "Single", NumByte: nb, Stream: st, Chunk: pl, Note: fmt.Sprintf("numByte=%d plan=%s/%d", nb, pl.Kind, pl.Size)})
				ids = append(ids, id)
			}
			singles = append(singles, ids)
		}
	}
	var plain, race []Scn
	for _, s := range scns {
		if raceOf[s.ID] {
			race = append(race, s)
		} else {
			plain = append(plain, s)
		}
	}
	rch := make(chan map[int]*Res, 1)
	go func() {
		rch <- runScenarios(race, runOpts{Race: true, Parallel: 6, PerScn: 15 * time.Second, Label: "c10r", Shuffle: gen.Mix(seed, 101011)})
	}()
	res := runScenarios(plain, runOpts{Parallel: 10, PerScn: 5 * time.Second, Label: "c10", Shuffle: gen.Mix(seed, 101010)})
	for k, v := range <-rch {
		res[k] = v
	}
	byID := map[int]Scn{}
	for _, s := range scns {
		byID[s.ID] = s
	}
	handle := func(ids []int, single bool) {
		var first *Res
		var firstSc Scn
		for _, i := range ids {
			sc := byID[i]
			r := res[i]
			if r == nil {
				c.Inconclusive("no result: " + sc.Note)
				continue
			}
			key := fmt.Sprintf("%s:%s", sc.WF, sc.Note)
			samples := 1
			if !single {
				samples = workflows[sc.WF].S
			}
			c.Eval(hashScn(sc), r.Reads > samples || sc.Source != "")
			c.Count("runs_"+sc.WF, 1)
			if sc.Source != "" {
				c.Count("runs_through_foreign_reader_types", 1)
			}
			c.Count("reads_recorded", int64(r.Reads))
			c.Count("judged_samples_checked", int64(r.Judged))
			if raceOf[i] {
				c.Count("runs_under_race_detector", 1)
			}
			switch r.Status {
			case "returned":
			case "timeout":
				c.Inconclusive(key + ": watchdog fired")
				continue
			default:
				c.Violation(key+":"+r.Status, fmt.Sprintf("%s did not return normally (%s): %s", sc.WF, r.Status, clip(r.Crash, 1500)), "wf", sc)
				continue
			}
			for _, p := range r.Problems {
				c.Violation(key+":history", p, "wf", sc)
				break
			}
			if r.Delivered < 0 {
				// foreign reader type: consumption is not observable
			} else if single {
				if r.Delivered != int64(sc.NumByte) {
					c.Violation(key+":consumed", fmt.Sprintf("SingleDetect consumed %d bytes, requested %d", r.Delivered, sc.NumByte), "wf", sc)
				}
			} else if !workflows[sc.WF].Fast {
				if want := int64(workflows[sc.WF].S * workflows[sc.WF].B); r.Delivered != want {
					c.Violation(key+":consumed", fmt.Sprintf("%s consumed %d bytes, needs exactly %d", sc.WF, r.Delivered, want), "wf", sc)
				}
			}
			if (r.Verdict && r.HasErr) || (!single && !r.Verdict && !r.HasErr) {
				c.Violation(key+":verdict-error-mismatch", fmt.Sprintf("verdict=%v err=%q", r.Verdict, r.Err), "wf", sc)
			}
			if first == nil {
				first, firstSc = r, sc
			} else if r.Verdict != first.Verdict || (!r.Verdict && errItem(r.Err) != errItem(first.Err)) {
				c.Violation(key+":plan-dependence", fmt.Sprintf("verdict %v (err %q) under %s/%d but %v (err %q) under %s/%d on the same bytes", r.Verdict, r.Err, sc.Chunk.Kind, sc.Chunk.Size, first.Verdict, first.Err, firstSc.Chunk.Kind, firstSc.Chunk.Size), "wf", sc)
			}
			if c.NSamples() < 5 && i%97 == 0 {
				c.Sample(sampleScn(sc, r))
			}
		}
	}
	for _, g := range groups {
		handle(g.ids, false)
	}
	for _, ids := range singles {
		handle(ids, true)
	}
	for _, i := range seqSingles {
		sc, r := byID[i], res[i]
		if r == nil {
			c.Inconclusive("no result: " + sc.Note)
			continue
		}
		key := "Single:" + sc.Note
		c.Eval(hashScn(sc), true)
		c.Count("consecutive_single_shot_sequences", 1)
		if r.Status != "returned" {
			if r.Status == "timeout" {
				c.Inconclusive(key + ": watchdog fired")
			} else {
				c.Violation(key+":"+r.Status, clip(r.Crash, 1200), "wf", sc)
			}
			continue
		}
		if fmt.Sprint(r.SeqVerdicts) != fmt.Sprint(r.SeqWant) {
			c.Violation(key+":sequence", fmt.Sprintf("verdicts of the %d consecutive calls %v, reference poker on consecutive chunks %v (a call that does not consume its bytes makes the next one judge the same data)", sc.Repeat, r.SeqVerdicts, r.SeqWant), "wf", sc)
		}
		if r.Delivered >= 0 && r.Delivered != int64(sc.Repeat*sc.NumByte) {
			c.Violation(key+":consumed", fmt.Sprintf("%d calls of SingleDetect(%d) consumed %d bytes", sc.Repeat, sc.NumByte, r.Delivered), "wf", sc)
		}
	}
	total, distinct, sample := raceReports(os.Getenv("VERIF_WORK"))
	c.Count("race_detector_reports", int64(total))
	for k, n := range distinct {
		c.Violation("race:"+k, fmt.Sprintf("%d DATA RACE report(s) under short reads, first:\n%s", n, sample), "race", k)
	}
}

// ---------- C14 ----------

func periodStreams(seed uint64, n int) []Stream {
	r := gen.NewRng(gen.Mix(seed, 1414))
	var out []Stream
	add := func(p []byte) { out = append(out, Stream{Kind: "periodic", Period: hex.EncodeToString(p)}) }
	// adversarial families first
	for _, L := range []int{2, 3, 7, 16, 32, 63, 64} {
		p := make([]byte, L)
		p[L-1] = 0x01
		add(p) // single set bit per period
		p2 := make([]byte, L)
		p2[0] = 0x80
		add(p2)
	}
	perm := r.Perm(64)
	pb := make([]byte, 64)
	for i := range pb {
		pb[i] = byte(perm[i])
	}
	add(pb)
	for i := range pb {
		pb[i] = byte(i * 4)
	}
	add(append([]byte(nil), pb...))
	add([]byte{0x55, 0xAA})
	add([]byte{0x0F, 0xF0, 0x33, 0xCC})
	for len(out) < n {
		L := r.Range(2, 64)
		p := r.Bytes(L)
		if r.Intn(3) == 0 { // few distinct bytes
			a, b := byte(r.U64()), byte(r.U64())
			for i := range p {
				if r.Intn(2) == 0 {
					p[i] = a
				} else {
					p[i] = b
				}
			}
			p[0], p[L-1] = a, b
		}
		add(p)
	}
	return out[:n]
}

func runC14(c *ev.Ctx) {
	c.Rule = "each case = one end-to-end workflow run with the REAL tests (recording wrappers only) on a stuck-at stream (every constant byte 0..255) or a short-cycle stream (period 2..64 bytes: seeded content plus adversarial families: one set bit per period, few distinct bytes, byte permutations); required outcome: returns, verdict false, error non-nil; SingleDetect on all-0x00 / all-0xFF at every length 16..4096, selected larger ones and 2*10^8 / 2^28 bytes must return false; the degenerate stream also behind an accepted prefix of seekable readers; the small scenarios once more with a 32-bit build of the harness. Each scenario runs in a child process so a panic in a worker goroutine is attributed. non-trivial = every stream (each is a distinct degenerate source); distinct = distinct (workflow, stream)"
	c.Assumptions = []string{"none beyond the Go runtime: verdicts are read off the real workflows"}
	seed := uint64(c.Seed)
	var scns []Scn
	id := 0
	add := func(wf string, st Stream, note string) {
		id++
		scns = append(scns, Scn{ID: id, WF: wf, Stream: st, Chunk: mon.ChunkPlan{Kind: "whole"}, Note: note})
	}
	// many single-shot checks at the same time (one per hardware thread of a server, say), each on its own
	// stuck-at source: every one of them must be rejected
	{
		const G = 64
		per := 40000
		if c.Lite() {
			per = 4000
		}
		var accepted, calls int64
		var first atomic.Value
		var wg sync.WaitGroup
		for g := 0; g < G; g++ {
			wg.Add(1)
			go func(g int) {
				defer wg.Done()
				for k := 0; k < per && atomic.LoadInt64(&accepted) == 0; k++ {
					nb := []int{40, 64, 320, 1280, 2500, 4096, 16}[(g+k)%7]
					b := byte(0x00)
					if (g+k/7)%2 == 1 {
						b = 0xFF
					}
					var ok bool
					var err error
					if p, m := guard(func() { ok, err = detect.SingleDetect(constSource(b), nb) }); p {
						atomic.AddInt64(&accepted, 1)
						first.Store(fmt.Sprintf("panic: %s", m))
						return
					}
					atomic.AddInt64(&calls, 1)
					if ok {
						atomic.AddInt64(&accepted, 1)
						first.Store(fmt.Sprintf("SingleDetect(stuck-at 0x%02x, %d bytes) = (true, %v) while %d goroutines run single-shot checks", b, nb, err, G))
						return
					}
				}
			}(g)
		}
		wg.Wait()
		c.Count("concurrent_single_shot_checks_on_stuck_sources", calls)
		c.Eval(ev.HashStr("c14-concurrent-singles"), true)
		if accepted > 0 {
			c.Violation("Single:concurrent stuck-at:accepted", fmt.Sprint(first.Load()), "c14conc", nil)
		}
	}
	var consts []Stream
	for b := 0; b < 256; b++ {
		consts = append(consts, Stream{Kind: "const", Byte: b, Tail: "none"})
	}
	np := 200
	if c.Thorough() {
		np = 300
	}
	periodic := periodStreams(seed, np)
	for _, st := range consts {
		add("Period", st, fmt.Sprintf("const 0x%02x", st.Byte))
		add("PeriodFast", st, fmt.Sprintf("const 0x%02x", st.Byte))
	}
	for _, st := range periodic {
		add("Period", st, "period "+clip(st.Period, 24)+fmt.Sprintf("(%dB)", len(st.Period)/2))
		add("PeriodFast", st, "period "+clip(st.Period, 24)+fmt.Sprintf("(%dB)", len(st.Period)/2))
	}
	// history: a detection on a healthy source that stays readable first, then - in the same process -
	// degenerate sources (whatever a workflow keeps from an earlier call must not be what gets judged)
	preStep := map[int]bool{}
	for ci, pr := range [][2]string{{"PeriodFast", "PeriodFast"}, {"PeriodFast", "Period"}, {"Period", "PeriodFast"}, {"PeriodFast", "PowerOnFast"}, {"PowerOnFast", "PeriodFast"}} {
		chain := fmt.Sprintf("c14chain%d", ci)
		hw := workflows[pr[0]]
		id++
		preStep[id] = true
		scns = append(scns, Scn{ID: id, WF: pr[0], Stream: Stream{Kind: "prng", Seed: gen.Mix(seed, 1499, uint64(ci)), Extra: 4 * hw.S * hw.B}, Chunk: mon.ChunkPlan{Kind: "whole"}, Chain: chain, Note: chain + " step1: healthy source with plenty of data left"})
		for k, st := range []Stream{consts[0], consts[0xFF], consts[0xA5], periodic[ci%len(periodic)], periodic[(ci+7)%len(periodic)]} {
			id++
			scns = append(scns, Scn{ID: id, WF: pr[1], Stream: st, Chunk: mon.ChunkPlan{Kind: "whole"}, Chain: chain, Note: fmt.Sprintf("%s step%d after a healthy %s: %s %s", chain, k+2, pr[0], st.Kind, clip(st.Period, 16)+fmt.Sprintf("%02x", st.Byte))})
		}
	}
	// the degenerate stream starts at a non-zero position of a seekable reader: good data in front of it
	// (already consumed) must not be what gets judged
	// (the prefix is PRNG data chosen so that the periodic detection accepts it on its own)
	goodSeed := uint64(0)
	for cand := uint64(1); cand < 200; cand++ {
		pre := gen.NewRng(gen.Mix(gen.Mix(seed, 1416, cand), 4242)).Bytes(50000)
		if ok, _ := detect.PeriodDetect(bytes.NewReader(pre)); ok {
			goodSeed = gen.Mix(seed, 1416, cand)
			break
		}
	}
	for k, st := range append(append([]Stream{}, consts[0], consts[0xFF], consts[0xA5]), periodic[:5]...) {
		if goodSeed == 0 {
			break
		}
		st.Seed = goodSeed
		for si, srcT := range []string{"bytes", "file", "bufio"} {
			for _, wf := range []string{"Period", "PeriodFast"} {
				id++
				scns = append(scns, Scn{ID: id, WF: wf, Stream: st, Chunk: mon.ChunkPlan{Kind: "whole"}, Source: srcT, Prefix: []int{50000, 50000, 12345}[(k+si)%3], Note: fmt.Sprintf("%s %s%02x behind an accepted prefix, source=%s", st.Kind, clip(st.Period, 12), st.Byte, srcT)})
			}
		}
	}
	// 10^6-bit workflows: a rotating subset in quick, everything in thorough
	var heavy []Scn
	r := gen.NewRng(gen.Mix(seed, 1415))
	pickC := []int{0x00, 0xFF, 0x55, 0x01, r.Intn(256), r.Intn(256)}
	pickP := []int{0, 6, 12, 13, 14, r.Intn(len(periodic)), r.Intn(len(periodic)), r.Intn(len(periodic))}
	addHeavy := func(wf string, st Stream, note string) {
		id++
		heavy = append(heavy, Scn{ID: id, WF: wf, Stream: st, Chunk: mon.ChunkPlan{Kind: "whole"}, Note: note})
	}
	if c.Thorough() {
		for _, st := range consts {
			addHeavy("PowerOnFast", st, fmt.Sprintf("const 0x%02x", st.Byte))
			addHeavy("FactoryFast", st, fmt.Sprintf("const 0x%02x", st.Byte))
			if st.Byte%8 == 0 {
				addHeavy("PowerOn", st, fmt.Sprintf("const 0x%02x", st.Byte))
			}
			if st.Byte%32 == 0 {
				addHeavy("Factory", st, fmt.Sprintf("const 0x%02x", st.Byte))
			}
		}
		for i, st := range periodic {
			addHeavy("PowerOnFast", st, "period "+clip(st.Period, 24))
			if i%4 == 0 {
				addHeavy("FactoryFast", st, "period "+clip(st.Period, 24))
			}
			if i%16 == 0 {
				addHeavy("PowerOn", st, "period "+clip(st.Period, 24))
			}
		}
	} else {
		for _, b := range pickC {
			st := consts[b]
			addHeavy("PowerOnFast", st, fmt.Sprintf("const 0x%02x", b))
			addHeavy("PowerOn", st, fmt.Sprintf("const 0x%02x", b))
		}
		for k, i := range pickP {
			st := periodic[i]
			addHeavy("PowerOnFast", st, "period "+clip(st.Period, 24))
			addHeavy("PowerOn", st, "period "+clip(st.Period, 24))
			if k < 3 {
				addHeavy("FactoryFast", st, "period "+clip(st.Period, 24))
			}
			if k == 0 {
				addHeavy("Factory", st, "period "+clip(st.Period, 24))
			}
		}
		addHeavy("FactoryFast", consts[0], "const 0x00")
		addHeavy("Factory", consts[0xFF], "const 0xff")
	}
	// SingleDetect: all-zero / all-one at every admissible length
	var heavySingles []Scn
	top := 4096
	for nb := 16; nb <= top; nb++ {
		for _, b := range []int{0x00, 0xFF} {
			id++
			scns = append(scns, Scn{ID: id, WF: "Single", NumByte: nb, Stream: Stream{Kind: "const", Byte: b, Tail: "none"}, Chunk: mon.ChunkPlan{Kind: "whole"}, Note: fmt.Sprintf("single const 0x%02x numByte=%d", b, nb)})
		}
	}
	hugeNB := []int{200000000, 1 << 28}
	if c.Thorough() {
		hugeNB = append(hugeNB, 189812532, 1<<27, 1<<28+1, 300000000)
		if strconv.IntSize == 64 {
			// requests beyond 2^32 bytes: byte counts no longer fit 32-bit counters
			four := int64(1) << 32
			hugeNB = append(hugeNB, int(four), int(four+1<<27))
		}
	}
	for _, nb := range hugeNB {
		for _, b := range []int{0x00, 0xFF} {
			id++
			heavySingles = append(heavySingles, Scn{ID: id, WF: "Single", NumByte: nb, Stream: Stream{Kind: "const", Byte: b, Tail: "none"}, Chunk: mon.ChunkPlan{Kind: "whole"}, Note: fmt.Sprintf("single const 0x%02x numByte=%d", b, nb)})
		}
	}
	for _, nb := range []int{5000, 10240 / 8, 10240/8 + 1, 65536, 125000, 1000000, 4000001, 1 << 25} {
		for _, b := range []int{0x00, 0xFF} {
			id++
			scns = append(scns, Scn{ID: id, WF: "Single", NumByte: nb, Stream: Stream{Kind: "const", Byte: b, Tail: "none"}, Chunk: mon.ChunkPlan{Kind: "whole"}, Note: fmt.Sprintf("single const 0x%02x numByte=%d", b, nb)})
		}
	}
	// the small stuck-at scenarios once more with a 32-bit build of the harness (int is 32 bits wide)
	var scns386 []Scn
	if os.Getenv("VERIF_BIN_386") != "" {
		for _, sc := range scns {
			if (sc.WF == "Single" && sc.NumByte <= 70000 && (sc.NumByte%5 == 1 || sc.NumByte <= 48 || sc.NumByte >= 4090 || (sc.NumByte >= 2890 && sc.NumByte <= 2910))) || ((sc.WF == "Period" || sc.WF == "PeriodFast") && sc.Source == "" && sc.ID%16 == 0) {
				id++
				sc2 := sc
				sc2.ID = id
				sc2.Note = "GOARCH=386: " + sc.Note
				scns386 = append(scns386, sc2)
			}
		}
	}
	ch386 := make(chan map[int]*Res, 1)
	go func() {
		ch386 <- runScenarios(scns386, runOpts{Parallel: 4, PerScn: 4 * time.Second, Label: "c14x", Arch386: true})
	}()
	hsch := make(chan map[int]*Res, 1)
	go func() {
		hsch <- runScenarios(heavySingles, runOpts{Parallel: 2, PerScn: 180 * time.Second, Label: "c14s"})
	}()
	hch := make(chan map[int]*Res, 1)
	go func() {
		hch <- runScenarios(heavy, runOpts{Parallel: 8, PerScn: 300 * time.Second, Label: "c14h"})
	}()
	res := runScenarios(scns, runOpts{Parallel: 8, PerScn: 2 * time.Second, Label: "c14", Shuffle: gen.Mix(seed, 141414)})
	for k, v := range <-hch {
		res[k] = v
	}
	for k, v := range <-hsch {
		res[k] = v
	}
	for k, v := range <-ch386 {
		res[k] = v
	}
	c.Count("scenarios_repeated_with_32_bit_build", int64(len(scns386)))
	all := append(append(append(append([]Scn{}, scns...), heavy...), heavySingles...), scns386...)
	for _, sc := range all {
		r := res[sc.ID]
		if preStep[sc.ID] {
			// the healthy first step is history, not a case: any verdict is legitimate, it only has to return
			if r != nil && r.Status != "returned" && r.Status != "timeout" {
				c.Violation(fmt.Sprintf("%s:%s:%s", sc.WF, sc.Note, r.Status), "did not return normally on a healthy source: "+clip(r.Crash, 1200), "wf", sc)
			}
			c.Count("history_chains", 1)
			continue
		}
		if r == nil {
			c.Inconclusive("no result: " + sc.Note)
			continue
		}
		key := fmt.Sprintf("%s:%s", sc.WF, sc.Note)
		c.Eval(ev.HashStr(sc.WF+"|"+sc.Note+"|"+sc.Stream.Period+fmt.Sprint(sc.Stream.Byte, sc.NumByte)), true)
		c.Count("runs_"+sc.WF, 1)
		c.Count("runner_calls_recorded", int64(r.RunCalls))
		switch r.Status {
		case "returned":
		case "timeout":
			c.Inconclusive(key + ": watchdog fired")
			continue
		default:
			c.Violation(key+":"+r.Status, fmt.Sprintf("%s crashed/hung on a degenerate source (%s): %s", sc.WF, r.Status, clip(r.Crash, 1500)), "wf", sc)
			continue
		}
		if r.Verdict {
			c.Violation(key+":accepted", fmt.Sprintf("%s ACCEPTED a %s source (err=%q)", sc.WF, sc.Stream.Kind, r.Err), "wf", sc)
		} else if !r.HasErr && sc.WF != "Single" {
			c.Violation(key+":nil-error", fmt.Sprintf("%s rejected with a nil error", sc.WF), "wf", sc)
		}
		if c.NSamples() < 6 && sc.ID%173 == 0 {
			c.Sample(sampleScn(sc, r))
		}
	}
}

// constSource is an endless stuck-at source.
type constSource byte

func (b constSource) Read(p []byte) (int, error) {
	for i := range p {
		p[i] = byte(b)
	}
	return len(p), nil
}
