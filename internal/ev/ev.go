// Package ev: verdict bookkeeping shared by every check — evidence file, replay
// files, VIOLATION / KNOWN-FINDING / INCONCLUSIVE lines, exit code.
package ev

import (
	"bufio"
	"encoding/json"
	"fmt"
	"hash/fnv"
	"os"
	"path/filepath"
	"sort"
	"strconv"
	"strings"
	"sync"
	"time"
)

// Root is the /verif directory (overridable for tests of the machinery).
var Root = func() string {
	if r := os.Getenv("VERIF_ROOT"); r != "" {
		return r
	}
	return "/verif"
}()

type finding struct {
	property string
	key      string
	text     string
	hit      bool
}

// OutRoot is where evidence/ and replays/ are written (VERIF_OUT redirects them, e.g. when the
// checks are run against a mutated scratch copy and must not touch the real evidence).
var OutRoot = func() string {
	if r := os.Getenv("VERIF_OUT"); r != "" {
		return r
	}
	return Root
}()

// Ctx collects what one run of one check observed.
type Ctx struct {
	ID    string
	Tier  string
	Seed  int64
	Level string

	mu           sync.Mutex
	start        time.Time
	evals        int64
	distinct     map[uint64]struct{}
	samples      []interface{}
	counters     map[string]int64
	maxima       map[string]float64
	notes        map[string]interface{}
	violations   int
	printed      int
	inconclusive int
	inconcMsgs   []string
	findings     []*finding
	Rule         string
	Assumptions  []string
	Exhaustive   bool
	replaySeq    int
}

// New reads tier and seed from the environment (VERIF_TIER may be overridden by arg).
func New(id, level, tier string) *Ctx {
	if tier == "" {
		tier = os.Getenv("VERIF_TIER")
	}
	if tier != "thorough" {
		tier = "quick"
	}
	seed := int64(1)
	if s := os.Getenv("VERIF_SEED"); s != "" {
		if v, err := strconv.ParseInt(s, 10, 64); err == nil {
			seed = v
		}
	}
	c := &Ctx{ID: id, Tier: tier, Seed: seed, Level: level, start: time.Now(),
		distinct: map[uint64]struct{}{}, counters: map[string]int64{}, maxima: map[string]float64{},
		notes: map[string]interface{}{}}
	c.loadFindings()
	return c
}

func (c *Ctx) Thorough() bool { return c.Tier == "thorough" }

// Lite: a thinned workload (set for the re-run of a pure check under an odd CPU count).
func (c *Ctx) Lite() bool { return os.Getenv("VERIF_LITE") == "1" }

func (c *Ctx) loadFindings() {
	f, err := os.Open(filepath.Join(Root, "KNOWN_FINDINGS.txt"))
	if err != nil {
		return
	}
	defer f.Close()
	sc := bufio.NewScanner(f)
	for sc.Scan() {
		line := strings.TrimSpace(sc.Text())
		if !strings.HasPrefix(line, "finding:") {
			continue // "fixed:" lines and comments suppress nothing
		}
		fs := strings.Fields(strings.TrimPrefix(line, "finding:"))
		fd := &finding{}
		var rest []string
		for _, w := range fs {
			switch {
			case strings.HasPrefix(w, "property=") && fd.property == "":
				fd.property = strings.TrimPrefix(w, "property=")
			case strings.HasPrefix(w, "key=") && fd.key == "":
				fd.key = strings.TrimPrefix(w, "key=")
			default:
				rest = append(rest, w)
			}
		}
		fd.text = strings.Join(rest, " ")
		if fd.property == c.ID && fd.key != "" {
			c.findings = append(c.findings, fd)
		}
	}
}

// HashStr is a convenience FNV-64 of a string.
func HashStr(s string) uint64 {
	h := fnv.New64a()
	h.Write([]byte(s))
	return h.Sum64()
}

// Eval records one evaluated case; hash identifies it, nontrivial is the check's own rule.
func (c *Ctx) Eval(hash uint64, nontrivial bool) {
	c.mu.Lock()
	c.evals++
	if nontrivial {
		c.distinct[hash] = struct{}{}
	}
	c.mu.Unlock()
}

func (c *Ctx) Count(name string, d int64) {
	c.mu.Lock()
	c.counters[name] += d
	c.mu.Unlock()
}

func (c *Ctx) Max(name string, v float64) {
	c.mu.Lock()
	if old, ok := c.maxima[name]; !ok || v > old {
		c.maxima[name] = v
	}
	c.mu.Unlock()
}

func (c *Ctx) Note(name string, v interface{}) {
	c.mu.Lock()
	c.notes[name] = v
	c.mu.Unlock()
}

// Sample keeps up to max written-out cases for the evidence file.
func (c *Ctx) Sample(v interface{}) {
	c.mu.Lock()
	if len(c.samples) < 6 {
		c.samples = append(c.samples, v)
	}
	c.mu.Unlock()
}

func (c *Ctx) NSamples() int {
	c.mu.Lock()
	defer c.mu.Unlock()
	return len(c.samples)
}

// Replay is what a replay file holds.
type Replay struct {
	Property string          `json:"property"`
	Key      string          `json:"key"`
	Message  string          `json:"message"`
	Kind     string          `json:"kind,omitempty"`
	Case     json.RawMessage `json:"case"`
}

// Violation records a refuting observation. key identifies the failing input / call
// site / history for KNOWN_FINDINGS matching; kind + cs let `check --replay` re-run it.
func (c *Ctx) Violation(key, msg, kind string, cs interface{}) {
	c.mu.Lock()
	defer c.mu.Unlock()
	for _, fd := range c.findings {
		if strings.Contains(key, fd.key) {
			if !fd.hit {
				fd.hit = true
				fmt.Printf("KNOWN-FINDING: property=%s %s (key=%s)\n", c.ID, fd.text, fd.key)
			}
			c.counters["known_finding_hits"]++
			return
		}
	}
	c.violations++
	if c.printed >= 25 {
		return
	}
	c.printed++
	c.replaySeq++
	raw, _ := json.Marshal(cs)
	rp := Replay{Property: c.ID, Key: key, Message: msg, Kind: kind, Case: raw}
	dir := filepath.Join(OutRoot, "replays")
	_ = os.MkdirAll(dir, 0o755)
	path := filepath.Join(dir, fmt.Sprintf("%s-%s-s%d-%03d.json", c.ID, c.Tier, c.Seed, c.replaySeq))
	b, _ := json.MarshalIndent(rp, "", " ")
	_ = os.WriteFile(path, b, 0o644)
	fmt.Printf("VIOLATION property=%s replay=%s\n", c.ID, path)
	fmt.Printf("  detail: %s :: %s\n", strings.ToValidUTF8(key, "\uFFFD"), strings.ToValidUTF8(msg, "\uFFFD")) // file names under test may hold arbitrary bytes
}

// Inconclusive: a case that could not be decided (watchdog, ambiguous boundary).
func (c *Ctx) Inconclusive(msg string) {
	c.mu.Lock()
	c.inconclusive++
	if len(c.inconcMsgs) < 10 {
		c.inconcMsgs = append(c.inconcMsgs, msg)
		fmt.Printf("INCONCLUSIVE property=%s %s\n", c.ID, msg)
	}
	c.mu.Unlock()
}

func (c *Ctx) Violations() int {
	c.mu.Lock()
	defer c.mu.Unlock()
	return c.violations
}

// Finish writes evidence/<id>.json and returns the process exit code.
func (c *Ctx) Finish() int {
	c.mu.Lock()
	defer c.mu.Unlock()
	cov := map[string]interface{}{
		"evaluations":         c.evals,
		"distinct_nontrivial": len(c.distinct),
		"rule":                c.Rule,
		"samples":             c.samples,
		"inconclusive":        c.inconclusive,
	}
	if c.Exhaustive {
		cov["exhaustive"] = true
	}
	keys := make([]string, 0, len(c.counters))
	for k := range c.counters {
		keys = append(keys, k)
	}
	sort.Strings(keys)
	ctr := map[string]int64{}
	for _, k := range keys {
		ctr[k] = c.counters[k]
	}
	cov["observed_counts"] = ctr
	if len(c.maxima) > 0 {
		cov["observed_maxima"] = c.maxima
	}
	for k, v := range c.notes {
		cov[k] = v
	}
	if len(c.inconcMsgs) > 0 {
		cov["inconclusive_examples"] = c.inconcMsgs
	}
	evd := map[string]interface{}{
		"property_id": c.ID,
		"tier":        c.Tier,
		"seed":        c.Seed,
		"level":       c.Level,
		"coverage":    cov,
		"assumptions": c.Assumptions,
		"wall_s":      time.Since(c.start).Seconds(),
		"violations":  c.violations,
	}
	if c.samples == nil {
		cov["samples"] = []interface{}{}
	}
	b, _ := json.MarshalIndent(evd, "", " ")
	dir := filepath.Join(OutRoot, "evidence")
	_ = os.MkdirAll(dir, 0o755)
	if err := os.WriteFile(filepath.Join(dir, c.ID+".json"), append(b, '\n'), 0o644); err != nil {
		fmt.Printf("cannot write evidence: %v\n", err)
		return 3
	}
	for _, fd := range c.findings {
		if !fd.hit {
			fmt.Printf("NOTE property=%s listed finding key=%s was not observed in this run\n", c.ID, fd.key)
		}
	}
	fmt.Printf("SUMMARY property=%s tier=%s seed=%d evaluations=%d distinct_nontrivial=%d violations=%d inconclusive=%d wall=%.1fs\n",
		c.ID, c.Tier, c.Seed, c.evals, len(c.distinct), c.violations, c.inconclusive, time.Since(c.start).Seconds())
	if c.violations > 0 {
		return 1
	}
	if c.evals == 0 || len(c.distinct) < 2 {
		fmt.Printf("OBSERVED-NOTHING property=%s: the monitors saw too few events to say anything\n", c.ID)
		return 3
	}
	if int64(c.inconclusive)*20 > c.evals {
		fmt.Printf("UNDECIDED property=%s: more than 5%% of the cases were inconclusive\n", c.ID)
		return 3
	}
	return 0
}

// LoadReplay reads a replay file.
func LoadReplay(path string) (*Replay, error) {
	b, err := os.ReadFile(path)
	if err != nil {
		return nil, err
	}
	var r Replay
	if err := json.Unmarshal(b, &r); err != nil {
		return nil, err
	}
	return &r, nil
}
