// Package oracle: independent reference implementations of the GM/T 0005-2021
// statistics, written from the definitions quoted in the properties. Never imports the code under test.
package oracle

import (
	"math"
	"math/big"
	"math/cmplx"
	"sync"
)

// ---------- special functions ----------

const prec = 160

func bf(x float64) *big.Float { return new(big.Float).SetPrec(prec).SetFloat64(x) }

func expNeg(x float64) *big.Float {
	if x == 0 {
		return bf(1)
	}
	k := 0
	y := bf(x)
	lim := bf(1.0 / 256)
	two := bf(2)
	for y.Cmp(lim) > 0 {
		y.Quo(y, two)
		k++
	}
	sum := bf(1)
	term := bf(1)
	for n := 1; n < 40; n++ {
		term.Mul(term, y)
		term.Quo(term, bf(float64(n)))
		if n%2 == 1 {
			sum.Sub(sum, term)
		} else {
			sum.Add(sum, term)
		}
	}
	for i := 0; i < k; i++ {
		sum.Mul(sum, sum)
	}
	return sum
}

var sqrtPi = func() *big.Float {
	pi, _, _ := big.ParseFloat("3.14159265358979323846264338327950288419716939937510582097494459230781640628620899", 10, prec, big.ToNearestEven)
	return new(big.Float).SetPrec(prec).Sqrt(pi)
}()

// Q2 returns Q(twoA/2, x) via the exact finite sums.
func Q2(twoA int, x float64) float64 {
	if math.IsNaN(x) {
		return math.NaN()
	}
	if x <= 0 {
		return 1
	}
	if math.IsInf(x, 1) {
		return 0
	}
	ex := expNeg(x)
	X := bf(x)
	sum := bf(0)
	if twoA%2 == 0 {
		a := twoA / 2
		term := new(big.Float).Copy(ex)
		for k := 0; k < a; k++ {
			if k > 0 {
				term.Mul(term, X)
				term.Quo(term, bf(float64(k)))
			}
			sum.Add(sum, term)
		}
		f, _ := sum.Float64()
		return f
	}
	j := (twoA - 1) / 2
	term := new(big.Float).SetPrec(prec).Sqrt(X)
	term.Mul(term, bf(2))
	term.Quo(term, sqrtPi)
	term.Mul(term, ex)
	for i := 0; i < j; i++ {
		if i > 0 {
			term.Mul(term, X)
			term.Quo(term, bf(float64(i)+0.5))
		}
		sum.Add(sum, term)
	}
	f, _ := sum.Float64()
	return f + math.Erfc(math.Sqrt(x))
}

func phi(x float64) float64 { return 0.5 * math.Erfc(-x/math.Sqrt2) }

// two-sided normal: returns P, Q for statistic V ~ N(0,1)
func normPQ(v float64) (float64, float64) {
	return math.Erfc(math.Abs(v) / math.Sqrt2), math.Erfc(v/math.Sqrt2) / 2
}

// ---------- bit access ----------

// Bits is a sequence of 0/1 values.
type Bits []uint8

func FromBytes(b []byte) Bits {
	out := make(Bits, 8*len(b))
	for i := range out {
		out[i] = (b[i/8] >> (7 - uint(i%8))) & 1
	}
	return out
}

func FromBools(b []bool) Bits {
	out := make(Bits, len(b))
	for i, v := range b {
		if v {
			out[i] = 1
		}
	}
	return out
}

func (e Bits) Bools() []bool {
	out := make([]bool, len(e))
	for i, v := range e {
		out[i] = v == 1
	}
	return out
}

// ---------- 1 monobit ----------
func Monobit(e Bits) (float64, float64) {
	n := len(e)
	ones := 0
	for _, b := range e {
		ones += int(b)
	}
	s := float64(2*ones - n)
	return normPQ(s / math.Sqrt(float64(n)))
}

// ---------- 2 block frequency ----------
func AutoBlockLen(n int) int {
	switch {
	case n < 1000:
		return 10
	case n < 10000:
		return 100
	case n < 1000000:
		return 1000
	case n < 100000000:
		return 10000
	}
	return 1000000
}

func BlockFrequency(e Bits, m int) (float64, float64) {
	n := len(e)
	N := n / m
	// V = 4m sum (pi_i - 1/2)^2 = sum (2*ones_i - m)^2 / m  (exact integer numerator)
	num := new(big.Int)
	for i := 0; i < N; i++ {
		ones := 0
		for j := 0; j < m; j++ {
			ones += int(e[i*m+j])
		}
		d := int64(2*ones - m)
		num.Add(num, big.NewInt(d*d))
	}
	v, _ := new(big.Float).Quo(new(big.Float).SetInt(num), bf(float64(m))).Float64()
	p := Q2(N, v/2)
	return p, p
}

// ---------- 3 poker ----------
func Poker(e Bits, m int) (float64, float64) {
	n := len(e)
	N := n / m
	cnt := make([]int64, 1<<uint(m))
	for i := 0; i < N; i++ {
		v := 0
		for j := 0; j < m; j++ {
			v = v*2 + int(e[i*m+j])
		}
		cnt[v]++
	}
	sq := new(big.Int)
	for _, c := range cnt {
		sq.Add(sq, big.NewInt(c*c))
	}
	// V = 2^m/N * sq - N = (2^m*sq - N^2)/N
	num := new(big.Int).Mul(sq, big.NewInt(int64(1)<<uint(m)))
	num.Sub(num, big.NewInt(int64(N)*int64(N)))
	v, _ := new(big.Float).Quo(new(big.Float).SetInt(num), bf(float64(N))).Float64()
	p := Q2((1<<uint(m))-1, v/2)
	return p, p
}

// ---------- 4 overlapping subsequence (serial) ----------
// psi2(m) exact rational numerator: (2^m * sum v^2 - n^2)/n
func psiNum(e Bits, m int) *big.Int {
	n := len(e)
	if m <= 0 {
		return new(big.Int)
	}
	cnt := make([]int64, 1<<uint(m))
	for i := 0; i < n; i++ {
		v := 0
		for j := 0; j < m; j++ {
			v = v*2 + int(e[(i+j)%n])
		}
		cnt[v]++
	}
	sq := new(big.Int)
	for _, c := range cnt {
		sq.Add(sq, big.NewInt(c*c))
	}
	num := new(big.Int).Mul(sq, big.NewInt(int64(1)<<uint(m)))
	num.Sub(num, new(big.Int).Mul(big.NewInt(int64(n)), big.NewInt(int64(n))))
	return num
}

func Overlapping(e Bits, m int) (p1, p2, q1, q2 float64) {
	n := len(e)
	a, b, c := psiNum(e, m), psiNum(e, m-1), psiNum(e, m-2)
	d1 := new(big.Int).Sub(a, b)
	d2 := new(big.Int).Sub(a, new(big.Int).Mul(b, big.NewInt(2)))
	d2.Add(d2, c)
	f1, _ := new(big.Float).Quo(new(big.Float).SetInt(d1), bf(float64(n))).Float64()
	f2, _ := new(big.Float).Quo(new(big.Float).SetInt(d2), bf(float64(n))).Float64()
	// shapes 2^(m-2) and 2^(m-3)  => twoA = 2^(m-1), 2^(m-2)
	p1 = Q2(1<<uint(m-1), f1/2)
	p2 = Q2(1<<uint(m-2), f2/2)
	return p1, p2, p1, p2
}

// ---------- 5 runs ----------
func Runs(e Bits) (float64, float64) {
	n := len(e)
	ones := 0
	vobs := 1
	for i, b := range e {
		ones += int(b)
		if i > 0 && e[i] != e[i-1] {
			vobs++
		}
	}
	pi := float64(ones) / float64(n)
	v := (float64(vobs) - 2*float64(n)*pi*(1-pi)) / (2 * math.Sqrt(float64(n)) * pi * (1 - pi))
	return normPQ(v)
}

// ---------- 6 runs distribution ----------
func RunsDistribution(e Bits) (float64, float64) {
	n := len(e)
	// k = max i with (n-i+3)/2^(i+2) >= 5
	k := 0
	for i := 1; i < 62; i++ {
		if float64(n-i+3)/math.Pow(2, float64(i+2)) >= 5 {
			k = i
		}
	}
	b := make([]float64, k+1)
	g := make([]float64, k+1)
	i := 0
	for i < n {
		j := i
		for j < n && e[j] == e[i] {
			j++
		}
		l := j - i
		if l > k {
			l = k
		}
		if e[i] == 1 {
			b[l]++
		} else {
			g[l]++
		}
		i = j
	}
	T := 0.0
	for i := 1; i <= k; i++ {
		T += b[i] + g[i]
	}
	V := 0.0
	for i := 1; i <= k; i++ {
		ei := T / math.Pow(2, float64(i+1))
		if i == k {
			ei = T / math.Pow(2, float64(k))
		}
		V += (b[i]-ei)*(b[i]-ei)/ei + (g[i]-ei)*(g[i]-ei)/ei
	}
	p := Q2(2*(k-1), V/2)
	return p, p
}

// ---------- 7 longest run in block ----------

// exact class probabilities, rounded to the printed precision
func longestRunTable(m, lo, K, decimals int) []float64 {
	// count(r) = number of m-bit strings with longest run of ones <= r
	count := func(r int) *big.Int {
		a := make([]*big.Int, m+1)
		a[0] = big.NewInt(1)
		for i := 1; i <= m; i++ {
			if i <= r {
				a[i] = new(big.Int).Lsh(big.NewInt(1), uint(i))
				continue
			}
			s := new(big.Int)
			for j := 1; j <= r+1; j++ {
				s.Add(s, a[i-j])
			}
			a[i] = s
		}
		return a[m]
	}
	tot := new(big.Int).Lsh(big.NewInt(1), uint(m))
	out := make([]float64, K+1)
	prev := new(big.Int)
	scale := math.Pow(10, float64(decimals))
	for c := 0; c <= K; c++ {
		var cur *big.Int
		if c < K {
			cur = count(lo + c)
		} else {
			cur = tot
		}
		d := new(big.Int).Sub(cur, prev)
		f, _ := new(big.Float).Quo(new(big.Float).SetPrec(200).SetInt(d), new(big.Float).SetPrec(200).SetInt(tot)).Float64()
		out[c] = math.Round(f*scale) / scale
		prev = cur
	}
	return out
}

var lrTables = map[int][]float64{}
var lrMu sync.Mutex

// LongestRunTable exposes the recomputed class probabilities (for the evidence file).
func LongestRunTable(m int) []float64 {
	lrMu.Lock()
	defer lrMu.Unlock()
	return lrTables[m]
}

func LongestRun(e Bits, ones bool) (float64, float64) {
	n := len(e)
	var m, lo, K, dec int
	switch {
	case n < 6272:
		m, lo, K, dec = 8, 1, 3, 4
	case n < 750000:
		m, lo, K, dec = 128, 4, 5, 4
	default:
		m, lo, K, dec = 10000, 10, 6, 6
	}
	lrMu.Lock()
	pi, ok := lrTables[m]
	if !ok {
		pi = longestRunTable(m, lo, K, dec)
		lrTables[m] = pi
	}
	lrMu.Unlock()
	N := n / m
	v := make([]float64, K+1)
	sym := uint8(0)
	if ones {
		sym = 1
	}
	for i := 0; i < N; i++ {
		best, cur := 0, 0
		for j := 0; j < m; j++ {
			if e[i*m+j] == sym {
				cur++
				if cur > best {
					best = cur
				}
			} else {
				cur = 0
			}
		}
		c := best - lo
		if c < 0 {
			c = 0
		}
		if c > K {
			c = K
		}
		v[c]++
	}
	V := 0.0
	for i := 0; i <= K; i++ {
		ex := float64(N) * pi[i]
		V += (v[i] - ex) * (v[i] - ex) / ex
	}
	p := Q2(K, V/2)
	return p, p
}

// ---------- 8 binary derivative ----------
func BinaryDerivative(e Bits, k int) (float64, float64) {
	n := len(e)
	cur := append(Bits(nil), e...)
	for r := 0; r < k; r++ {
		next := make(Bits, len(cur)-1)
		for i := range next {
			next[i] = cur[i] ^ cur[i+1]
		}
		cur = next
	}
	ones := 0
	for _, b := range cur {
		ones += int(b)
	}
	s := float64(2*ones - (n - k))
	return normPQ(s / math.Sqrt(float64(n-k)))
}

// ---------- 9 autocorrelation ----------
func Autocorrelation(e Bits, d int) (float64, float64) {
	n := len(e)
	a := 0
	for i := 0; i+d < n; i++ {
		a += int(e[i] ^ e[i+d])
	}
	v := 2 * (float64(a) - float64(n-d)/2) / math.Sqrt(float64(n-d))
	return normPQ(v)
}

// ---------- 10 matrix rank ----------
func GF2Rank(rows []uint32) int {
	r := 0
	rs := append([]uint32(nil), rows...)
	for bit := 31; bit >= 0; bit-- {
		p := -1
		for i := r; i < len(rs); i++ {
			if rs[i]>>uint(bit)&1 == 1 {
				p = i
				break
			}
		}
		if p < 0 {
			continue
		}
		rs[r], rs[p] = rs[p], rs[r]
		for i := 0; i < len(rs); i++ {
			if i != r && rs[i]>>uint(bit)&1 == 1 {
				rs[i] ^= rs[r]
			}
		}
		r++
	}
	return r
}

func MatrixRank(e Bits) (float64, float64) {
	n := len(e)
	N := n / 1024
	var f32, f31, fr float64
	for i := 0; i < N; i++ {
		rows := make([]uint32, 32)
		for r := 0; r < 32; r++ {
			var w uint32
			for c := 0; c < 32; c++ {
				w = w<<1 | uint32(e[i*1024+r*32+c])
			}
			rows[r] = w
		}
		switch GF2Rank(rows) {
		case 32:
			f32++
		case 31:
			f31++
		default:
			fr++
		}
	}
	fn := float64(N)
	V := (f32-0.2888*fn)*(f32-0.2888*fn)/(0.2888*fn) + (f31-0.5776*fn)*(f31-0.5776*fn)/(0.5776*fn) + (fr-0.1336*fn)*(fr-0.1336*fn)/(0.1336*fn)
	p := Q2(2, V/2)
	return p, p
}

// ---------- 11 cumulative sums ----------
func floorDiv(a, b int) int { // b>0
	q := a / b
	if a%b != 0 && a < 0 {
		q--
	}
	return q
}
func ceilDiv(a, b int) int { return -floorDiv(-a, b) }

func Cumulative(e Bits, forward bool) (float64, float64) {
	n := len(e)
	s, z := 0, 0
	for i := 0; i < n; i++ {
		b := e[i]
		if !forward {
			b = e[n-1-i]
		}
		s += 2*int(b) - 1
		if s > z {
			z = s
		}
		if -s > z {
			z = -s
		}
	}
	p := CumulativeP(n, z)
	return p, p
}

// CumulativeP is the cumulative-sums P-value as a function of the length and the maximum excursion.
func CumulativeP(n, z int) float64 {
	sq := math.Sqrt(float64(n))
	// i in [(-n/z+1)/4, (n/z-1)/4] : 4i >= -n/z+1 <=> 4 i z >= -n + z
	lo1 := ceilDiv(-n+z, 4*z)
	hi := floorDiv(n-z, 4*z)
	lo2 := ceilDiv(-n-3*z, 4*z)
	p := 1.0
	for i := lo1; i <= hi; i++ {
		p -= phi(float64((4*i+1)*z)/sq) - phi(float64((4*i-1)*z)/sq)
	}
	for i := lo2; i <= hi; i++ {
		p += phi(float64((4*i+3)*z)/sq) - phi(float64((4*i+1)*z)/sq)
	}
	return p
}

// ---------- 12 approximate entropy ----------

var lnCache = map[int]*big.Float{}
var lnMu sync.Mutex

// lnBig returns ln(c) to ~1e-30: math.Log refined by one Newton step y1 = y0 - 1 + c*exp(-y0).
func lnBig(c int) *big.Float {
	lnMu.Lock()
	if v, ok := lnCache[c]; ok {
		lnMu.Unlock()
		return v
	}
	lnMu.Unlock()
	y0 := math.Log(float64(c))
	var y *big.Float
	if c == 1 {
		y = bf(0)
	} else {
		e := expNeg(y0)
		e.Mul(e, bf(float64(c)))
		y = bf(y0)
		y.Sub(y, bf(1))
		y.Add(y, e)
	}
	lnMu.Lock()
	if len(lnCache) < 1<<20 {
		lnCache[c] = y
	}
	lnMu.Unlock()
	return y
}

// ApEn: V = 2n[ln2 - (phi_m - phi_{m+1})] with phi_m = sum (c/n) ln(c/n)
//
//	= 2n ln2 - 2(S_m - S_{m+1}),  S_m = sum c ln c  (the n ln n terms cancel).
func ApEn(e Bits, m int) (float64, float64) {
	n := len(e)
	S := func(m int) *big.Float {
		cnt := make([]int, 1<<uint(m))
		for i := 0; i < n; i++ {
			v := 0
			for j := 0; j < m; j++ {
				v = v*2 + int(e[(i+j)%n])
			}
			cnt[v]++
		}
		s := bf(0)
		for _, c := range cnt {
			if c > 1 {
				t := new(big.Float).SetPrec(prec).Mul(bf(float64(c)), lnBig(c))
				s.Add(s, t)
			}
		}
		return s
	}
	d := S(m)
	d.Sub(d, S(m+1))
	d.Mul(d, bf(2))
	V := new(big.Float).SetPrec(prec).Mul(bf(2*float64(n)), lnBig(2))
	V.Sub(V, d)
	v, _ := V.Float64()
	p := Q2(1<<uint(m), v/2)
	return p, p
}

// ---------- 13 linear complexity ----------

// LFSRLen returns the linear complexity of s using a bitset Berlekamp-Massey
// (textbook form with polynomials stored as big.Int).
func LFSRLen(s Bits) int {
	n := len(s)
	c := big.NewInt(1)
	b := big.NewInt(1)
	L, m := 0, -1
	for N := 0; N < n; N++ {
		d := int(s[N])
		for i := 1; i <= L; i++ {
			if c.Bit(i) == 1 {
				d ^= int(s[N-i])
			}
		}
		if d == 1 {
			t := new(big.Int).Set(c)
			c.Xor(c, new(big.Int).Lsh(b, uint(N-m)))
			if 2*L <= N {
				L = N + 1 - L
				m = N
				b = t
			}
		}
	}
	return L
}

func LinearComplexity(e Bits, m int) (float64, float64) {
	n := len(e)
	N := n / m
	sign := 1.0
	if m%2 == 1 {
		sign = -1.0
	}
	mu := float64(m)/2 + (9-sign)/36 - (float64(m)/3+2.0/9)/math.Pow(2, float64(m))
	pi := []float64{0.010417, 0.03125, 0.125, 0.5, 0.25, 0.0625, 0.020833}
	v := make([]float64, 7)
	for i := 0; i < N; i++ {
		L := LFSRLen(e[i*m : (i+1)*m])
		T := sign*(float64(L)-mu) + 2.0/9
		switch {
		case T <= -2.5:
			v[0]++
		case T <= -1.5:
			v[1]++
		case T <= -0.5:
			v[2]++
		case T <= 0.5:
			v[3]++
		case T <= 1.5:
			v[4]++
		case T <= 2.5:
			v[5]++
		default:
			v[6]++
		}
	}
	V := 0.0
	for i := range v {
		ex := float64(N) * pi[i]
		V += (v[i] - ex) * (v[i] - ex) / ex
	}
	p := Q2(6, V/2)
	return p, p
}

// ---------- 14 Maurer ----------
func Maurer(e Bits) (float64, float64) {
	const L, Q = 7, 1280
	n := len(e)
	K := n/L - Q
	last := make([]int, 1<<L)
	sum := 0.0
	for i := 1; i <= Q+K; i++ {
		v := 0
		for j := 0; j < L; j++ {
			v = v*2 + int(e[(i-1)*L+j])
		}
		if i > Q {
			sum += math.Log2(float64(i - last[v]))
		}
		last[v] = i
	}
	c := 0.7 - 0.8/L + (4+32.0/L)*math.Pow(float64(K), -3.0/L)/15
	sigma := c * math.Sqrt(3.125/float64(K))
	V := (sum/float64(K) - 6.1962507) / sigma
	return normPQ(V)
}

// ---------- 15 DFT ----------

// FFT is an independent transform: iterative decimation-in-frequency (Gentleman-Sande)
// with twiddles from a per-stage recurrence-free sincos, output un-scrambled at the end.
// X[k] = sum_j x[j] exp(-2 pi i jk/N). The input is not modified.
func FFT(in []complex128) []complex128 {
	n := len(in)
	x := make([]complex128, n)
	copy(x, in)
	if n <= 1 {
		return x
	}
	lg := 0
	for 1<<uint(lg) < n {
		lg++
	}
	if 1<<uint(lg) != n {
		panic("oracle.FFT: length not a power of two")
	}
	for half := n / 2; half >= 1; half /= 2 {
		span := half * 2
		tw := make([]complex128, half)
		for k := 0; k < half; k++ {
			s, c := math.Sincos(-2 * math.Pi * float64(k) / float64(span))
			tw[k] = complex(c, s)
		}
		for base := 0; base < n; base += span {
			for k := 0; k < half; k++ {
				a, b := x[base+k], x[base+k+half]
				x[base+k] = a + b
				x[base+k+half] = (a - b) * tw[k]
			}
		}
	}
	// bit reversal
	out := make([]complex128, n)
	for i := 0; i < n; i++ {
		r := 0
		for b := 0; b < lg; b++ {
			if i>>uint(b)&1 == 1 {
				r |= 1 << uint(lg-1-b)
			}
		}
		out[r] = x[i]
	}
	return out
}

// NaiveDFTBin computes X[k] by direct summation with exact angle reduction
// (Neumaier-compensated sums so that it is usable as ground truth for large N).
func NaiveDFTBin(x []complex128, k int) complex128 {
	n := len(x)
	var re, im, cre, cim float64
	add := func(sum, comp *float64, v float64) {
		t := *sum + v
		if math.Abs(*sum) >= math.Abs(v) {
			*comp += (*sum - t) + v
		} else {
			*comp += (v - t) + *sum
		}
		*sum = t
	}
	idx := 0
	for j := 0; j < n; j++ {
		s, c := math.Sincos(-2 * math.Pi * float64(idx) / float64(n))
		w := complex(c, s) * x[j]
		add(&re, &cre, real(w))
		add(&im, &cim, imag(w))
		idx += k
		if idx >= n {
			idx -= n
		}
	}
	return complex(re+cre, im+cim)
}

// DFTResult is the reference for the spectral test. Because a magnitude may sit closer
// to the threshold than floating-point resolution, N1 is an interval.
type DFTResult struct {
	N1lo, N1hi int
	Spectrum   []complex128
}

// PQ returns the reference (P,Q) for a given N1.
func DFTPQ(n, n1 int) (float64, float64) {
	N0 := 0.95 * float64(n) / 2
	den := math.Sqrt(0.95 * 0.05 * float64(n) / 3.8)
	return normPQ((float64(n1) - N0) / den)
}

func DFT(e Bits) DFTResult {
	n := len(e)
	N := 2
	for N < n {
		N *= 2
	}
	x := make([]complex128, N)
	for i := 0; i < n; i++ {
		x[i] = complex(float64(2*int(e[i])-1), 0)
	}
	X := FFT(x)
	T := math.Sqrt(2.995732274 * float64(n))
	// absolute slack on a magnitude: the two transforms' own rounding (about 1e-16 * log2(N) * sqrt(n)) with a
	// factor of ~10^3 to spare; the property allows either count only inside floating-point resolution
	eps := 2e-12 * math.Sqrt(float64(n))
	var r DFTResult
	for i := 0; i < n/2-1; i++ {
		a := cmplx.Abs(X[i])
		if a < T-eps {
			r.N1lo++
		}
		if a < T+eps {
			r.N1hi++
		}
	}
	r.Spectrum = X
	return r
}

// ---------- decision rule of GM/T 0005 section 6 ----------

// Threshold: smallest integer t >= s(1 - a - 3 sqrt(a(1-a)/s)), a = 0.01, decided by the
// exact integer inequality (99s - 100t)^2 <= 891 s (or 99s - 100t <= 0).
func Threshold(s int) int {
	t := 0
	// start near the answer to stay O(1)
	if g := (99*s)/100 - int(3*math.Sqrt(0.0099*float64(s))) - 3; g > 0 {
		t = g
	}
	for {
		d := int64(99*s - 100*t)
		if d <= 0 || d*d <= 891*int64(s) {
			return t
		}
		t++
	}
}

// Bin returns the index of the interval [k/10,(k+1)/10) containing q ([0.9,1] for the last).
func Bin(q float64) int {
	for b := 0; b < 9; b++ {
		if q < float64(b+1)/10 {
			return b
		}
	}
	return 9
}

// UniformityP = Q(9/2, V/2), V = sum (F_i - s/10)^2/(s/10) computed from integer counts.
func UniformityP(qs []float64) float64 {
	var F [10]int64
	for _, q := range qs {
		F[Bin(q)]++
	}
	return UniformityFromCounts(F[:], len(qs))
}

func UniformityFromCounts(F []int64, s int) float64 {
	// V = (10*sum F^2 - s^2)/s exactly
	// exact in arbitrary precision (10*sum F^2 exceeds 2^63 for lists of about 10^9 values)
	ss := new(big.Int)
	for _, f := range F {
		ss.Add(ss, new(big.Int).Mul(big.NewInt(f), big.NewInt(f)))
	}
	num := new(big.Int).Mul(ss, big.NewInt(10))
	num.Sub(num, new(big.Int).Mul(big.NewInt(int64(s)), big.NewInt(int64(s))))
	v, _ := new(big.Float).Quo(new(big.Float).SetPrec(prec).SetInt(num), bf(float64(s))).Float64()
	return Q2(9, v/2)
}
