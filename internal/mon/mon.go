// Package mon: monitors placed at the seams of the code under test — a recording
// io.Reader (chunk / fault / delay plans), recording or stubbing registry runners, a
// sample-history checker and a goroutine census.
package mon

import (
	"encoding/binary"
	"errors"
	"fmt"
	"io"
	"math"
	"runtime"
	"sort"
	"strings"
	"sync"
	"sync/atomic"
	"syscall"
	"time"

	"verif/internal/gen"
)

// ---------- goroutine identity ----------

// Gid returns the current goroutine's id (parsed from the stack header).
func Gid() int64 {
	var buf [64]byte
	n := runtime.Stack(buf[:], false)
	// "goroutine 123 ["
	s := buf[:n]
	var id int64
	for i := len("goroutine "); i < len(s) && s[i] >= '0' && s[i] <= '9'; i++ {
		id = id*10 + int64(s[i]-'0')
	}
	return id
}

// Hash64 is a fast non-cryptographic hash of a byte slice (word-wise multiply/rotate).
func Hash64(b []byte) uint64 {
	h := uint64(len(b))*0x9E3779B97F4A7C15 + 0x1F83D9ABFB41BD6B
	i := 0
	for ; i+8 <= len(b); i += 8 {
		w := binary.LittleEndian.Uint64(b[i:])
		h ^= w * 0xFF51AFD7ED558CCD
		h = (h<<27 | h>>37) * 0xC4CEB9FE1A85EC53
	}
	for ; i < len(b); i++ {
		h ^= uint64(b[i])
		h *= 0x100000001B3
	}
	h ^= h >> 33
	h *= 0xFF51AFD7ED558CCD
	h ^= h >> 33
	return h
}

// ---------- plans ----------

// ChunkPlan says how many bytes a Read may deliver.
type ChunkPlan struct {
	Kind  string `json:"kind"` // whole | fixed | random | straddle | stall (Size consecutive (0,nil) reads before every Block-th delivery)
	Size  int    `json:"size,omitempty"`
	Seed  uint64 `json:"seed,omitempty"`
	Block int    `json:"block,omitempty"` // straddle: sample size
	// stall plan: each empty read takes StallSleepMs (a non-blocking device polled while its buffer stays
	// empty for seconds); StallOnce: only the first stall happens
	StallSleepMs int  `json:"stall_sleep_ms,omitempty"`
	StallOnce    bool `json:"stall_once,omitempty"`
	// EOFWithLast: the Read that hands out the final bytes of the stream returns io.EOF together with
	// them (allowed by io.Reader; many readers do this)
	EOFWithLast bool `json:"eof_with_last,omitempty"`
}

// FaultPlan makes the source fail at a byte offset.
type FaultPlan struct {
	Offset int64  `json:"offset"`
	Kind   string `json:"kind"` // eof | ueof | custom | partial (error returned together with the bytes before Offset)
	Sticky bool   `json:"sticky"`
}

// DelayPlan perturbs scheduling at the seams.
type DelayPlan struct {
	Mode string `json:"mode"` // none | gosched | sleep | mixed | slow
	Seed uint64 `json:"seed,omitempty"`
}

var ErrCustom = errors.New("verif: injected source failure")

// PostFaultPollLimit: how often a source that keeps returning the same error may be asked again
// before the harness gives up (every correct workflow asks at most once per outstanding sample).
const PostFaultPollLimit = 20000

// tempErr is a temporary-class error (Temporary() and Timeout() true), like EAGAIN or a net timeout.
type tempErr struct{ msg string }

func (e tempErr) Error() string   { return e.msg }
func (e tempErr) Temporary() bool { return true }
func (e tempErr) Timeout() bool   { return true }

var ErrTemporary error = tempErr{"verif: resource temporarily unavailable (injected)"}

func (f *FaultPlan) err() error {
	switch f.Kind {
	case "eof":
		return io.EOF
	case "ueof":
		return io.ErrUnexpectedEOF
	case "temporary":
		return ErrTemporary
	case "eagain":
		return syscall.EAGAIN
	case "eintr":
		return syscall.EINTR
	case "wrapped-eintr":
		return fmt.Errorf("rng device: %w", syscall.EINTR)
	}
	return ErrCustom
}

// delayer applies a DelayPlan; safe for concurrent use.
type delayer struct {
	ctr  uint64 // first field: 64-bit atomics need 8-byte alignment on 32-bit builds
	plan DelayPlan
}

func (d *delayer) pause(site uint64) {
	if d == nil || d.plan.Mode == "" || d.plan.Mode == "none" {
		return
	}
	if d.plan.Mode == "slow" {
		// a slow device: every Read takes 60-120 ms (runs last seconds; nothing may time out)
		if site == 1 {
			time.Sleep(time.Duration(60+gen.NewRng(gen.Mix(d.plan.Seed, atomic.AddUint64(&d.ctr, 1))).Intn(60)) * time.Millisecond)
		}
		return
	}
	k := atomic.AddUint64(&d.ctr, 1)
	if k > 3000 && k%50 != 0 {
		return // long histories (1-byte reads): keep perturbing, but only now and then
	}
	r := gen.NewRng(gen.Mix(d.plan.Seed, k, site))
	mode := d.plan.Mode
	if mode == "mixed" {
		mode = []string{"none", "gosched", "sleep", "gosched"}[r.Intn(4)]
	}
	switch mode {
	case "gosched":
		n := r.Intn(4)
		for i := 0; i < n; i++ {
			runtime.Gosched()
		}
	case "sleep":
		time.Sleep(time.Duration(r.Intn(300)) * time.Microsecond)
	}
}

// ---------- recording reader ----------

// ReadEvent is one Read call as seen at the boundary.
type ReadEvent struct {
	Seq  int64
	Gid  int64
	Req  int
	N    int
	Off  int64
	Err  string
	Post bool // issued after the fault fired
}

// Reader delivers a fixed byte stream under the plans and records every call.
// Each Read is atomic (mutex), i.e. the source is safe for concurrent use.
type Reader struct {
	mu        sync.Mutex
	data      []byte
	pos       int64
	chunk     ChunkPlan
	crng      *gen.Rng
	fault     *FaultPlan
	fired     bool
	delay     *delayer
	Events    []ReadEvent // first MaxEvents calls (all of them are counted in Calls / PostCalls)
	Calls     int
	PostCalls int
	MaxEvents int
	seq       *int64
	Exhaust   bool // set when a Read hit the end of the stream
	deliv     int  // deliveries so far (stall plan)
	stall     int  // remaining (0,nil) answers of the current stall
}

func NewReader(data []byte, chunk ChunkPlan, fault *FaultPlan, delay DelayPlan, seq *int64) *Reader {
	return &Reader{data: data, chunk: chunk, crng: gen.NewRng(chunk.Seed + 17), fault: fault, delay: &delayer{plan: delay}, seq: seq, MaxEvents: 200000}
}

func (r *Reader) limit(req int) int {
	switch r.chunk.Kind {
	case "fixed":
		if r.chunk.Size < req {
			return r.chunk.Size
		}
	case "random":
		return 1 + r.crng.Intn(req)
	case "straddle":
		// cut so that reads end Size bytes after each sample boundary (and never aligned with one)
		b := int64(r.chunk.Block)
		next := (r.pos/b+1)*b + int64(r.chunk.Size)
		if next-r.pos > b {
			next -= b
		}
		if next <= r.pos {
			next += b
		}
		if int64(req) > next-r.pos {
			return int(next - r.pos)
		}
	}
	return req
}

func (r *Reader) Read(p []byte) (int, error) {
	r.delay.pause(1)
	r.mu.Lock()
	r.Calls++
	if r.fired {
		r.PostCalls++
		if r.fault != nil && r.fault.Sticky && r.PostCalls > PostFaultPollLimit {
			r.mu.Unlock()
			// a logical, not a wall-clock, verdict on "retries for ever": the source has answered with the same
			// sticky error this many times and is still being polled
			panic(fmt.Sprintf("verif: source polled %d times after it had failed for good (%v)", r.PostCalls, r.fault.err()))
		}
	}
	if len(r.Events) < r.MaxEvents {
		ev := ReadEvent{Seq: atomic.AddInt64(r.seq, 1), Gid: Gid(), Req: len(p), Off: r.pos, Post: r.fired}
		n, err := r.readLocked(p)
		ev.N = n
		if err != nil {
			ev.Err = err.Error()
		}
		r.Events = append(r.Events, ev)
		r.mu.Unlock()
		r.delay.pause(2)
		return n, err
	}
	n, err := r.readLocked(p)
	r.mu.Unlock()
	r.delay.pause(2)
	return n, err
}

func (r *Reader) readLocked(p []byte) (int, error) {
	if len(p) == 0 {
		return 0, nil
	}
	if r.chunk.Kind == "stall" {
		if r.stall > 0 {
			r.stall--
			if r.chunk.StallSleepMs > 0 {
				time.Sleep(time.Duration(r.chunk.StallSleepMs) * time.Millisecond)
			}
			return 0, nil
		}
		r.deliv++
		blk := r.chunk.Block
		if blk <= 0 {
			blk = 1
		}
		if r.deliv%blk == 0 && !(r.chunk.StallOnce && r.deliv > blk) {
			r.stall = r.chunk.Size
		}
	}
	if r.fault != nil && r.fired && r.fault.Sticky {
		return 0, r.fault.err()
	}
	lim := r.limit(len(p))
	avail := int64(len(r.data)) - r.pos
	if r.fault != nil && !(r.fired && !r.fault.Sticky) {
		// not yet fired (or sticky handled above)
		if !r.fired {
			toFault := r.fault.Offset - r.pos
			if toFault <= 0 {
				r.fired = true
				return 0, r.fault.err()
			}
			if int64(lim) >= toFault {
				lim = int(toFault)
				if r.fault.Kind == "partial" {
					n := copy(p[:lim], r.data[r.pos:])
					r.pos += int64(n)
					r.fired = true
					return n, r.fault.err()
				}
			}
		}
	}
	if avail <= 0 {
		r.Exhaust = true
		return 0, io.EOF
	}
	if int64(lim) > avail {
		lim = int(avail)
	}
	n := copy(p[:lim], r.data[r.pos:])
	r.pos += int64(n)
	if r.chunk.EOFWithLast && r.pos == int64(len(r.data)) {
		return n, io.EOF
	}
	return n, nil
}

// Delivered is the number of stream bytes handed out so far.
func (r *Reader) Delivered() int64 {
	r.mu.Lock()
	defer r.mu.Unlock()
	return r.pos
}

func (r *Reader) Fired() bool {
	r.mu.Lock()
	defer r.mu.Unlock()
	return r.fired
}

// ---------- runner recording / stubbing ----------

// RunEvent is one registry-runner invocation.
type RunEvent struct {
	SeqCall, SeqRet int64
	Gid             int64
	Item            int
	Len             int
	Hash            uint64
	Pass            bool
	P, Q            float64
	Post            bool
}

// Cell is one (Pass,Q) entry of a result matrix.
type Cell struct {
	Pass bool    `json:"p"`
	Q    float64 `json:"q"`
}

const stubOff = 16

// EncodeMatrix builds a stream of len(m) samples of B bytes whose stub-decoded results are m.
// Bytes 0..7 hold the sample index+1, 8..15 a run tag, the rest is PRNG filler.
func EncodeMatrix(m [][]Cell, B int, tag uint64, fill *gen.Rng) []byte {
	s := len(m)
	out := fill.Bytes(s * B)
	for j := 0; j < s; j++ {
		smp := out[j*B : (j+1)*B]
		binary.BigEndian.PutUint64(smp[0:], uint64(j)+1)
		binary.BigEndian.PutUint64(smp[8:], tag)
		for i, c := range m[j] {
			o := stubOff + 9*i
			smp[o] = 0
			if c.Pass {
				smp[o] = 1
			}
			binary.BigEndian.PutUint64(smp[o+1:], math.Float64bits(c.Q))
		}
	}
	return out
}

// DecodeCell is what stub runner `item` returns for a sample.
func DecodeCell(b []byte, item int) Cell {
	o := stubOff + 9*item
	if len(b) < o+9 {
		return Cell{}
	}
	return Cell{Pass: b[o] == 1, Q: math.Float64frombits(binary.BigEndian.Uint64(b[o+1:]))}
}

// Log collects runner events; safe for concurrent use.
type Log struct {
	Seq    int64 // first field: 64-bit atomics need 8-byte alignment on 32-bit builds
	mu     sync.Mutex
	Events []RunEvent
	postFn func() bool
	delay  *delayer
}

func NewLog(delay DelayPlan) *Log { return &Log{delay: &delayer{plan: delay}} }

// SetPost installs the predicate "the fault has fired" used to mark later events.
func (l *Log) SetPost(f func() bool) { l.postFn = f }

func (l *Log) add(e RunEvent) {
	l.mu.Lock()
	l.Events = append(l.Events, e)
	l.mu.Unlock()
}

// ---------- history checking ----------

// Judged is one sample as the workflow judged it: the set of runner calls sharing (goroutine, hash, consecutive).
type Judged struct {
	Hash  uint64
	Gid   int64
	Items []int
	Cells []Cell
	First int64 // seq of first call
	Last  int64 // seq of last return
}

// GroupJudged groups runner events into judged samples: maximal runs of events by the same
// goroutine on the same data hash.
func GroupJudged(evs []RunEvent) []Judged {
	byG := map[int64][]RunEvent{}
	for _, e := range evs {
		byG[e.Gid] = append(byG[e.Gid], e)
	}
	var out []Judged
	for g, es := range byG {
		sort.Slice(es, func(a, b int) bool { return es[a].SeqCall < es[b].SeqCall })
		var cur *Judged
		for _, e := range es {
			if cur == nil || cur.Hash != e.Hash || (len(cur.Items) > 0 && e.Item <= cur.Items[len(cur.Items)-1]) {
				if cur != nil {
					out = append(out, *cur)
				}
				cur = &Judged{Hash: e.Hash, Gid: g, First: e.SeqCall}
			}
			cur.Items = append(cur.Items, e.Item)
			cur.Cells = append(cur.Cells, Cell{e.Pass, e.Q})
			cur.Last = e.SeqRet
		}
		if cur != nil {
			out = append(out, *cur)
		}
	}
	sort.Slice(out, func(a, b int) bool { return out[a].First < out[b].First })
	return out
}

// CheckHistory decides the exactly-once / no-stale / item-set clauses.
// stream is what the source held, B the sample size, s the sample count, items the expected item count.
// inOrder additionally demands that the j-th judged sample is the j-th chunk (sequential workflows).
func CheckHistory(js []Judged, stream []byte, B, s, items int, inOrder bool) (problems []string, chunkOf []int) {
	want := map[uint64][]int{}
	for j := 0; j < s && (j+1)*B <= len(stream); j++ {
		h := Hash64(stream[j*B : (j+1)*B])
		want[h] = append(want[h], j)
	}
	seen := make([]int, s)
	chunkOf = make([]int, len(js))
	for k, jd := range js {
		chunkOf[k] = -1
		idx, ok := want[jd.Hash]
		if !ok {
			problems = append(problems, fmt.Sprintf("judged sample #%d (goroutine %d) is not any chunk stream[j*%d:(j+1)*%d]: stale, zero or non-contiguous bytes", k, jd.Gid, B, B))
			continue
		}
		// pick the least-seen chunk with that hash (identical chunks are interchangeable)
		best := idx[0]
		for _, j := range idx {
			if seen[j] < seen[best] {
				best = j
			}
		}
		seen[best]++
		chunkOf[k] = best
		if inOrder && best != k {
			problems = append(problems, fmt.Sprintf("judged sample #%d is chunk %d, expected chunk %d (consecutive splitting)", k, best, k))
		}
		if len(jd.Items) != items {
			problems = append(problems, fmt.Sprintf("sample chunk %d judged by %d items %v, expected %d", best, len(jd.Items), jd.Items, items))
		} else {
			for i, it := range jd.Items {
				if it != i {
					problems = append(problems, fmt.Sprintf("sample chunk %d: item order %v is not registry order", best, jd.Items))
					break
				}
			}
		}
	}
	for j, c := range seen {
		if c == 0 {
			problems = append(problems, fmt.Sprintf("chunk %d was never judged", j))
		} else if c > 1 {
			problems = append(problems, fmt.Sprintf("chunk %d was judged %d times", j, c))
		}
	}
	if len(problems) > 8 {
		problems = append(problems[:8], fmt.Sprintf("... %d more", len(problems)-8))
	}
	return
}

// ScheduleSignature is a canonical string of (sample -> worker by first appearance, completion order).
func ScheduleSignature(js []Judged, chunkOf []int) string {
	gname := map[int64]int{}
	var sb strings.Builder
	for k, j := range js {
		if _, ok := gname[j.Gid]; !ok {
			gname[j.Gid] = len(gname)
		}
		fmt.Fprintf(&sb, "%d@%d ", chunkOf[k], gname[j.Gid])
	}
	order := make([]int, len(js))
	for i := range order {
		order[i] = i
	}
	sort.Slice(order, func(a, b int) bool { return js[order[a]].Last < js[order[b]].Last })
	sb.WriteString("| ")
	for _, k := range order {
		fmt.Fprintf(&sb, "%d ", chunkOf[k])
	}
	return sb.String()
}

// ---------- goroutine census ----------

// ModuleGoroutines returns the stacks of goroutines (other than the caller) that have a frame in the module under test.
func ModuleGoroutines(module string) []string {
	buf := make([]byte, 1<<20)
	for {
		n := runtime.Stack(buf, true)
		if n < len(buf) {
			buf = buf[:n]
			break
		}
		buf = make([]byte, 2*len(buf))
	}
	self := fmt.Sprintf("goroutine %d ", Gid())
	var out []string
	for _, g := range strings.Split(string(buf), "\n\n") {
		if strings.HasPrefix(g, self) {
			continue
		}
		if strings.Contains(g, module) {
			out = append(out, g)
		}
	}
	return out
}

var blockedStates = []string{"[chan receive", "[chan send", "[semacquire", "[select", "[IO wait", "[sync.Mutex.Lock", "[sync.WaitGroup.Wait", "[sync.Cond.Wait", "[sync.RWMutex"}

func allBlocked(gs []string) bool {
	for _, g := range gs {
		hdr := g
		if i := strings.Index(g, "\n"); i >= 0 {
			hdr = g[:i]
		}
		ok := false
		for _, b := range blockedStates {
			if strings.Contains(hdr, b) {
				ok = true
			}
		}
		if !ok {
			return false
		}
	}
	return true
}

func stripHeader(gs []string) string {
	var parts []string
	for _, g := range gs {
		if i := strings.Index(g, "\n"); i >= 0 {
			// keep id, drop state/minutes
			hdr := g[:i]
			if k := strings.Index(hdr, "["); k >= 0 {
				hdr = hdr[:k]
			}
			parts = append(parts, hdr+g[i:])
		}
	}
	sort.Strings(parts)
	return strings.Join(parts, "\n\n")
}

// Census waits for the module's goroutines to go away after a call returned. It reports a
// leak only when the leftovers are all blocked and unchanged across two dumps taken
// `stable` polls apart; still-runnable leftovers after maxPolls are "undecided".
func Census(module string, maxPolls, stable int) (leaked []string, undecided bool) {
	var prev string
	prevAt := -1
	for i := 0; i < maxPolls; i++ {
		gs := ModuleGoroutines(module)
		if len(gs) == 0 {
			return nil, false
		}
		if allBlocked(gs) {
			cur := stripHeader(gs)
			if cur == prev && i-prevAt >= stable {
				return gs, false
			}
			if cur != prev {
				prev, prevAt = cur, i
			}
		} else {
			prev, prevAt = "", -1
		}
		runtime.Gosched()
		time.Sleep(200 * time.Microsecond)
	}
	return ModuleGoroutines(module), true
}
