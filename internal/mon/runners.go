package mon

import (
	"sync/atomic"

	R "github.com/Trisia/randomness"
)

var origRegistry []R.TestItem

// SaveRegistry snapshots the registry once (before any wrapping).
func SaveRegistry() []R.TestItem {
	if origRegistry == nil {
		origRegistry = append([]R.TestItem(nil), R.TestMethodArr...)
	}
	return origRegistry
}

// RestoreRegistry puts the original runners back.
func RestoreRegistry() {
	if origRegistry != nil {
		for i := range R.TestMethodArr {
			if i < len(origRegistry) {
				R.TestMethodArr[i] = origRegistry[i]
			}
		}
	}
}

// Install replaces every registry runner by a recording wrapper. In stub mode the wrapper
// returns the result encoded in the sample instead of running the real test.
func Install(l *Log, stub bool) {
	orig := SaveRegistry()
	for i := range R.TestMethodArr {
		i := i
		real := orig[i].Runner
		name := orig[i].Name
		R.TestMethodArr[i].Runner = func(b []byte) *R.TestResult {
			l.delay.pause(uint64(10 + i))
			e := RunEvent{SeqCall: atomic.AddInt64(&l.Seq, 1), Gid: Gid(), Item: i, Len: len(b), Hash: Hash64(b)}
			if l.postFn != nil {
				e.Post = l.postFn()
			}
			var res *R.TestResult
			if stub {
				c := DecodeCell(b, i)
				p := 0.001
				if c.Pass {
					p = 0.5
				}
				// P2/Q2 are deliberately unrelated to the cell (failing, clustered): the decision rule uses Pass and Q only
				res = &R.TestResult{Name: name, P: p, Q: c.Q, P2: 0.0001, Q2: 0.45, Pass: c.Pass}
			} else {
				res = real(b)
			}
			if res != nil {
				e.Pass, e.P, e.Q = res.Pass, res.P, res.Q
			}
			l.delay.pause(uint64(40 + i))
			e.SeqRet = atomic.AddInt64(&l.Seq, 1)
			l.add(e)
			return res
		}
	}
}
