// Package gen: seeded, descriptor-driven workload generators. Every generated input is a
// pure function of its descriptor, so a replay file only needs the descriptor.
package gen

import (
	"encoding/hex"
	"fmt"
	"math"
)

// Rng is splitmix64.
type Rng struct{ s uint64 }

func NewRng(seed uint64) *Rng { return &Rng{s: seed*0x9E3779B97F4A7C15 + 0x1234567} }

func (r *Rng) U64() uint64 {
	r.s += 0x9E3779B97F4A7C15
	z := r.s
	z = (z ^ (z >> 30)) * 0xBF58476D1CE4E5B9
	z = (z ^ (z >> 27)) * 0x94D049BB133111EB
	return z ^ (z >> 31)
}

func (r *Rng) Float() float64 { return float64(r.U64()>>11) / (1 << 53) }

// Intn returns a value in [0,n).
func (r *Rng) Intn(n int) int {
	if n <= 1 {
		return 0
	}
	return int(r.U64() % uint64(n))
}

// Range returns a value in [lo,hi].
func (r *Rng) Range(lo, hi int) int { return lo + r.Intn(hi-lo+1) }

func (r *Rng) Norm() float64 {
	u1 := r.Float()
	if u1 < 1e-300 {
		u1 = 1e-300
	}
	return math.Sqrt(-2*math.Log(u1)) * math.Cos(2*math.Pi*r.Float())
}

func (r *Rng) Perm(n int) []int {
	p := make([]int, n)
	for i := range p {
		p[i] = i
	}
	for i := n - 1; i > 0; i-- {
		j := r.Intn(i + 1)
		p[i], p[j] = p[j], p[i]
	}
	return p
}

func (r *Rng) Bytes(n int) []byte {
	out := make([]byte, n)
	var w uint64
	for i := range out {
		if i%8 == 0 {
			w = r.U64()
		}
		out[i] = byte(w)
		w >>= 8
	}
	return out
}

// Mix derives a sub-seed.
func Mix(a uint64, b ...uint64) uint64 {
	r := NewRng(a)
	x := r.U64()
	for _, v := range b {
		r2 := NewRng(x ^ (v+0x51ED27)*0xD6E8FEB86659FD93)
		x = r2.U64()
	}
	return x
}

// Seq describes one bit sequence.
type Seq struct {
	Fam  string `json:"fam"`
	N    int    `json:"n"`
	Seed uint64 `json:"seed"`
	A    int    `json:"a,omitempty"`
	B    int    `json:"b,omitempty"`
	Hex  string `json:"hex,omitempty"` // explicit: bits packed MSB-first, N says how many count
}

func (s Seq) String() string {
	if s.Fam == "explicit" {
		h := s.Hex
		if len(h) > 40 {
			h = h[:40] + "…"
		}
		return fmt.Sprintf("explicit/n=%d/%s", s.N, h)
	}
	return fmt.Sprintf("%s/n=%d/seed=%d/a=%d/b=%d", s.Fam, s.N, s.Seed, s.A, s.B)
}

// Families lists the generic families usable at any length.
var Families = []string{"uniform", "biased", "slight", "zeros", "ones", "alt", "periodic", "byteperiodic", "markov", "singlerun", "sparse", "lfsr", "balanced", "longruns", "debruijn", "counter"}

// Explicit wraps a concrete bit vector into a descriptor.
func Explicit(bits []uint8) Seq {
	b := make([]byte, (len(bits)+7)/8)
	for i, v := range bits {
		if v != 0 {
			b[i/8] |= 0x80 >> uint(i%8)
		}
	}
	return Seq{Fam: "explicit", N: len(bits), Hex: hex.EncodeToString(b)}
}

// Bits materialises the sequence (values 0/1).
func (s Seq) Bits() []uint8 {
	n := s.N
	out := make([]uint8, n)
	r := NewRng(Mix(s.Seed, uint64(len(s.Fam)), uint64(s.N)))
	fillP := func(p float64) {
		thr := uint64(p * (1 << 32))
		var w uint64
		for i := 0; i < n; i++ {
			if i%2 == 0 {
				w = r.U64()
			} else {
				w >>= 32
			}
			if (w & 0xFFFFFFFF) < thr {
				out[i] = 1
			}
		}
	}
	switch s.Fam {
	case "explicit":
		b, _ := hex.DecodeString(s.Hex)
		for i := 0; i < n && i/8 < len(b); i++ {
			out[i] = (b[i/8] >> (7 - uint(i%8))) & 1
		}
	case "uniform":
		var w uint64
		for i := 0; i < n; i++ {
			if i%64 == 0 {
				w = r.U64()
			}
			out[i] = uint8(w & 1)
			w >>= 1
		}
	case "biased":
		fillP(r.Float())
	case "slight":
		fillP(0.5 + (r.Float()-0.5)*0.02)
	case "bias": // A/1000 probability of one
		fillP(float64(s.A) / 1000)
	case "zeros":
	case "ones":
		for i := range out {
			out[i] = 1
		}
	case "alt":
		for i := range out {
			out[i] = uint8((i + s.A) & 1)
		}
	case "periodic": // period A bits (default seeded 2..70)
		p := s.A
		if p <= 0 {
			p = r.Range(2, 70)
		}
		pat := make([]uint8, p)
		for i := range pat {
			pat[i] = uint8(r.U64() & 1)
		}
		for i := range out {
			out[i] = pat[i%p]
		}
	case "byteperiodic": // period A bytes
		p := s.A
		if p <= 0 {
			p = r.Range(1, 64)
		}
		pat := r.Bytes(p)
		for i := range out {
			out[i] = (pat[(i/8)%p] >> (7 - uint(i%8))) & 1
		}
	case "markov": // persistence probability seeded
		stay := 0.05 + 0.9*r.Float()
		if s.A > 0 {
			stay = float64(s.A) / 1000
		}
		cur := uint8(r.U64() & 1)
		for i := range out {
			out[i] = cur
			if r.Float() >= stay {
				cur ^= 1
			}
		}
	case "singlerun": // zeros with one run of ones of length A starting at B
		a := s.A
		if a <= 0 {
			a = r.Range(1, n)
		}
		for i := s.B; i < s.B+a && i < n; i++ {
			out[i] = 1
		}
	case "sparse": // A ones (default 1..5) at random places
		k := s.A
		if k <= 0 {
			k = r.Range(1, 5)
		}
		for j := 0; j < k; j++ {
			out[r.Intn(n)] = 1
		}
	case "lfsr": // Fibonacci LFSR of degree A (default 3..64), random taps and state
		d := s.A
		if d <= 0 {
			d = r.Range(3, 64)
		}
		taps := make([]int, 0, 4)
		taps = append(taps, d)
		for j := 0; j < 3; j++ {
			taps = append(taps, r.Range(1, d))
		}
		st := make([]uint8, d)
		nz := false
		for i := range st {
			st[i] = uint8(r.U64() & 1)
			nz = nz || st[i] == 1
		}
		if !nz {
			st[0] = 1
		}
		for i := 0; i < n; i++ {
			if i < d {
				out[i] = st[i]
				continue
			}
			var v uint8
			for _, t := range taps {
				v ^= out[i-t]
			}
			out[i] = v
		}
	case "balanced": // exactly n/2 ones in a random arrangement
		for i := 0; i < n/2; i++ {
			out[i] = 1
		}
		for i := n - 1; i > 0; i-- {
			j := r.Intn(i + 1)
			out[i], out[j] = out[j], out[i]
		}
	case "walk": // +-1 walk whose maximum |partial sum| is exactly A (1<=A<=n): climbs to A, then oscillates
		z := s.A
		if z < 1 {
			z = 1
		}
		if z > n {
			z = n
		}
		pos := 0
		up := true
		if s.B == 1 {
			up = false
		}
		for i := 0; i < n; i++ {
			// first reach +-z, afterwards bounce inside [-z,z] with seeded choices
			var step int
			if i < z {
				step = 1
			} else {
				if pos >= z {
					step = -1
				} else if pos <= -z {
					step = 1
				} else if r.U64()&1 == 1 {
					step = 1
				} else {
					step = -1
				}
			}
			pos += step
			if (step == 1) == up {
				out[i] = 1
			}
		}
	case "longruns": // random background with a few inserted runs (ones and zeros) of lengths around powers of two
		var w uint64
		for i := 0; i < n; i++ {
			if i%64 == 0 {
				w = r.U64()
			}
			out[i] = uint8(w & 1)
			w >>= 1
		}
		lens := []int{15, 16, 17, 31, 32, 33, 63, 64, 65, 127, 128, 129, 255, 256, 257, 261, 300, 511, 512, 515, 1023, 1024, 1030, 4095, 4096, 4100, 65535, 65536, 65540}
		k := s.A
		if k <= 0 {
			k = 1 + r.Intn(4)
		}
		for j := 0; j < k; j++ {
			l := lens[r.Intn(len(lens))]
			if l >= n/2 {
				l = lens[r.Intn(12)]
			}
			if l >= n {
				continue
			}
			st := r.Intn(n - l)
			v := uint8(r.U64() & 1)
			for i := st; i < st+l; i++ {
				out[i] = v
			}
			if st > 0 {
				out[st-1] = v ^ 1
			}
			if st+l < n {
				out[st+l] = v ^ 1
			}
		}
	case "maurergap": // 7-bit blocks of seeded filler that never equals a marked pattern; the mark occurs at block 1300 and 1300+A (B=0) or first at block A (B=1)
		mark := r.Intn(128)
		nblk := n / 7
		put := func(blk, v int) {
			if blk < 0 || blk >= nblk {
				return
			}
			for j := 0; j < 7; j++ {
				out[blk*7+j] = uint8(v >> uint(6-j) & 1)
			}
		}
		for blk := 0; blk < nblk; blk++ {
			v := r.Intn(127)
			if v >= mark {
				v++
			}
			put(blk, v)
		}
		if s.B == 1 {
			put(s.A-1, mark)
		} else {
			put(1300, mark)
			put(1300+s.A, mark)
		}
	case "maurersparse": // all-zero 7-bit blocks except three patterns (1, 2, 3) that occur for the first time at the 1-based block numbers A, A+33263 and B
		for k, blk := range []int{s.A, s.A + 33263, s.B} {
			if blk > 0 && blk*7 <= n {
				v := k + 1
				for j := 0; j < 7; j++ {
					out[(blk-1)*7+j] = uint8(v >> uint(6-j) & 1)
				}
			}
		}
	case "debruijn": // binary de Bruijn sequence B(2,A) (A<=0: the largest order with 2^A <= n), repeated/cut to n: every A-bit pattern equally often (cyclically)
		k := s.A
		if k <= 0 {
			k = 1
			for 1<<uint(k+1) <= n && k < 24 {
				k++
			}
		}
		// prefer-one construction via the standard recursive (FKM) algorithm
		a := make([]int, 2*k+1)
		seq := make([]uint8, 0, 1<<uint(k))
		var db func(t, p int)
		db = func(t, p int) {
			if t > k {
				if k%p == 0 {
					for i := 1; i <= p; i++ {
						seq = append(seq, uint8(a[i]))
					}
				}
				return
			}
			a[t] = a[t-p]
			db(t+1, p)
			for j := a[t-p] + 1; j < 2; j++ {
				a[t] = j
				db(t+1, t)
			}
		}
		db(1, 1)
		rot := 0
		if s.B > 0 {
			rot = s.B % len(seq)
		}
		for i := range out {
			out[i] = seq[(i+rot)%len(seq)]
		}
	case "cusumword":
		// a walk whose extreme excursion is reached at a chosen bit of a 64-bit word: low-excursion words first,
		// then whole words of ones up to a new maximum on a word boundary, a pivot word (A ones, then zeros:
		// the maximum is A above the boundary, the walk ends 64-2A... below it), one more word of ones (the
		// old maximum is passed, or not, within a bit or two of the word's end), then words leading away.
		// B bit0: complement everything (excursion downwards); B bit1: reverse (for the backward mode).
		k := s.A
		if k <= 0 || k > 63 {
			k = 1
		}
		var words []uint64
		for i, np := 0, r.Range(0, 12); i < np; i++ {
			words = append(words, []uint64{0x5555555555555555, 0xAAAAAAAAAAAAAAAA, 0x0F0F0F0F0F0F0F0F, 0x3333333333333333, 0xFFFFFFFF00000000, 0x00000000FFFFFFFF}[r.Intn(6)])
		}
		for i, nu := 0, r.Range(2, 4); i < nu; i++ {
			words = append(words, ^uint64(0))
		}
		words = append(words, ^uint64(0)<<(64-uint(k))) // k ones, then zeros
		words = append(words, ^uint64(0))
		for i, nd := 0, r.Range(1, 3); i < nd; i++ {
			words = append(words, 0)
		}
		for i := 0; i < n; i++ {
			w := i / 64
			var word uint64 = 0x5555555555555555
			if w < len(words) {
				word = words[w]
			} else if w%2 == 1 {
				word = 0xAAAAAAAAAAAAAAAA
			}
			out[i] = uint8(word >> (63 - uint(i%64)) & 1)
		}
		if s.B&1 == 1 {
			for i := range out {
				out[i] ^= 1
			}
		}
		if s.B&2 == 2 {
			for i, j := 0, len(out)-1; i < j; i, j = i+1, j-1 {
				out[i], out[j] = out[j], out[i]
			}
		}
	case "counter": // the bytes 00,01,..,FF repeated (every byte value, hence every nibble and bit pair, equally often)
		for i := range out {
			out[i] = uint8(((i / 8) & 0xFF) >> (7 - uint(i%8)) & 1)
		}
	case "bytepat": // Hex pattern bytes repeated
		pat, _ := hex.DecodeString(s.Hex)
		if len(pat) == 0 {
			pat = []byte{0}
		}
		for i := range out {
			out[i] = (pat[(i/8)%len(pat)] >> (7 - uint(i%8))) & 1
		}
	case "onebit": // zeros with a single one at position B (B<0: from the end)
		p := s.B
		if p < 0 {
			p = n + p
		}
		if p >= 0 && p < n {
			out[p] = 1
		}
	case "transition": // zeros then ones, switch at B
		for i := s.B; i < n; i++ {
			out[i] = 1
		}
	default:
		panic("gen: unknown family " + s.Fam)
	}
	return out
}

// Bools converts to the library's bit representation.
func Bools(b []uint8) []bool {
	out := make([]bool, len(b))
	for i, v := range b {
		out[i] = v != 0
	}
	return out
}

// Pack packs bits MSB-first into bytes (len must be a multiple of 8).
func Pack(b []uint8) []byte {
	out := make([]byte, len(b)/8)
	for i := 0; i < len(out)*8; i++ {
		if b[i] != 0 {
			out[i/8] |= 0x80 >> uint(i%8)
		}
	}
	return out
}

// Unpack expands bytes MSB-first (the harness's own expansion, independent of the library's).
func Unpack(b []byte) []uint8 {
	out := make([]uint8, 8*len(b))
	for i := range out {
		out[i] = (b[i/8] >> (7 - uint(i%8))) & 1
	}
	return out
}
